"""Shared fixtures for the hardware-layer properties (C23, C24, C25)."""
from __future__ import annotations

import contextlib


class Clock:
    """Replaces the `time` module inside openpectus.engine.hardware_recovery: harness-controlled time."""

    def __init__(self, t0=1000):
        self.now = t0

    def time(self):
        return self.now


def make_fake_hw():
    from openpectus.engine.hardware import HardwareLayerBase, HardwareLayerException, Register, RegisterDirection

    class FakeHW(HardwareLayerBase):
        def __init__(self):
            super().__init__()
            self.mem = {}          # register name -> value on the "device"
            self.fail = False      # next op fails
            self.connect_fail = False
            self.log = []          # ("w", name, value) / ("r", name)
            self.connects = 0
            self.calls = 0         # number of read/write calls that reached the device (failing ones included)
            self._is_connected = True

        def read(self, r):
            self.calls += 1
            if self.fail:
                raise HardwareLayerException("read failed")
            self.log.append(("r", r.name))
            return self.mem.get(r.name)

        def read_batch(self, registers):
            self.calls += 1
            if self.fail:
                raise HardwareLayerException("read_batch failed")
            return [self.read(r) for r in registers]

        def write(self, value, r):
            self.calls += 1
            if self.fail:
                raise HardwareLayerException("write failed")
            self.mem[r.name] = value
            self.log.append(("w", r.name, value))

        def write_batch(self, values, registers):
            self.calls += 1
            if self.fail:
                raise HardwareLayerException("write_batch failed")
            for v, r in zip(values, registers):
                self.write(v, r)

        def connect(self):
            if self.connect_fail:
                raise HardwareLayerException("connect failed")
            self.connects += 1
            self._is_connected = True

        def disconnect(self):
            self._is_connected = False

    return FakeHW, Register, RegisterDirection, HardwareLayerException


@contextlib.contextmanager
def recovery_decorator(sym, connected=True):
    """Yield (decorator, fake hw, clock, registers, status tag) with hardware_recovery.time = harness clock."""
    import openpectus.engine.hardware_recovery as hr
    from openpectus.lang.exec.tags import Tag
    with sym.concrete():
        FakeHW, Register, RegisterDirection, _ = make_fake_hw()
        clock = Clock()
        orig_time = hr.time
        hr.time = clock
        orig_fw = hr.ErrorRecoveryDecorator._setup_decorated_method_forwards
        hr.ErrorRecoveryDecorator._setup_decorated_method_forwards = lambda self: None
        hw = FakeHW()
        hw._is_connected = connected
        regs = [Register("A", RegisterDirection.Both), Register("B", RegisterDirection.Both)]
        for r in regs:
            hw._registers[r.name] = r
        tag = Tag("Connection Status", tick_time=1.0, value="Disconnected")
        tag.format_fn = None
        dec = hr.ErrorRecoveryDecorator(hw, hr.ErrorRecoveryConfig(), tag)
    try:
        yield dec, hw, clock, regs, tag
    finally:
        hr.time = orig_time
        hr.ErrorRecoveryDecorator._setup_decorated_method_forwards = orig_fw
