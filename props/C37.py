"""C37  Active-user list tracks live connections.

Real code: FromFrontend.user_subscribed_pubsub / on_ws_disconnect / register_active_user / unregister_active_user,
invoked through the callbacks FromFrontend registers on the publisher (subscribe event, websocket disconnect).

Solver variables: the history -- per step a selector over the enabled events
  sub(c,u)   connection c subscribes to the dead-man-switch topic of user u (plus an unrelated topic)
  disc(c)    the websocket of connection c closes (also for a connection that never subscribed)
  reg(u,e)   user u registers as active on process unit e      unreg(u,e)  ... unregisters
A connection id belongs to one user and is never reused after it closed (ids are per-websocket uuids).

Reference model (from the statement, lenient reading): a user may be listed on a unit only if they registered there
and since then neither unregistered nor lost their last live connection.  The statement does not say whether a user
who registers while having no live connection may be listed; the oracle accepts both.
"""
from symx.obligation import Obligation
from props.agg_common import frontend_world, run_coro

USERS = ["uA", "uB"]
CONNS = ["c0", "c1", "c2"]
UNITS = ["E1", "E2"]


def _enabled(conn_user, closed, users_seen, units_seen, universe=(2, 3, 2)):
    """Events enabled in the current reference state, with interchangeable ids introduced in a fixed order."""
    ev = []
    nu, nc, ne = universe
    users = USERS[:min(nu, users_seen + 1)]
    units = UNITS[:min(ne, units_seen + 1)]
    fresh_used = False
    for c in CONNS[:nc]:
        if c in closed:
            continue
        if c in conn_user:
            ev.append(("sub", c, conn_user[c]))       # re-subscription on an open connection
            ev.append(("disc", c, None))
        elif not fresh_used:                           # connection ids are interchangeable: open them in order
            fresh_used = True
            for u in users:
                ev.append(("sub", c, u))
            ev.append(("disc", c, None))               # closes without ever having subscribed to a dead-man switch
    for u in users:
        for e in units:
            ev.append(("reg", u, e))
    for u in USERS[:users_seen]:
        for e in UNITS[:units_seen]:
            ev.append(("unreg", u, e))
    return ev


def harness(sym):
    n = sym.shard.get("n", 4)
    first = sym.shard.get("first", [])
    universe = tuple(sym.shard.get("universe", (2, 3, 2)))     # users, connections, units
    with frontend_world(sym, UNITS) as (agg, publisher):
        ff = agg.from_frontend
        conn_user, closed = {}, set()     # live connection -> user ; closed connection ids
        ever_closed = {u: 0 for u in USERS}
        may_list = set()                  # (user, unit) pairs the statement allows to be listed
        dropped_by = {}                   # (user, unit) -> why the pair left may_list
        users_seen = units_seen = 0
        trace = []
        for i in range(n):
            options = _enabled(conn_user, closed, users_seen, units_seen, universe)
            if i < len(first):
                k = first[i]
                if k >= len(options):
                    return
            else:
                k = sym.index(f"ev{i}", len(options))
            kind, a, b = options[k]
            trace.append(f"{kind}({a}{',' + b if b else ''})")
            raised = None
            if kind == "sub":
                users_seen = max(users_seen, USERS.index(b) + 1)
                try:
                    for cb in publisher.subscribe_callbacks:
                        run_coro(cb(a, [f"dead_man_switch/{b}", "process_units"]))
                except Exception as e:
                    raised = e
                conn_user[a] = b
            elif kind == "disc":
                u = conn_user.pop(a, None)
                closed.add(a)
                try:
                    for cb in publisher.on_disconnect_callbacks:
                        run_coro(cb(a))
                except Exception as e:
                    raised = e
                if u is not None:
                    if u not in conn_user.values():          # the user's last live connection closed
                        for p in sorted(may_list):
                            if p[0] == u:
                                may_list.discard(p)
                                dropped_by[p] = "last-connection-closed|closed-before=" + ("none" if ever_closed[u] == 0 else "some")
                    ever_closed[u] += 1
                sym.check(raised is None, f"raises|on_ws_disconnect|{type(raised).__name__}|" +
                          ("connection-never-subscribed" if u is None else "subscribed-connection"),
                          f"{trace}: closing connection {a} raised {raised!r}")
            elif kind == "reg":
                users_seen = max(users_seen, USERS.index(a) + 1)
                units_seen = max(units_seen, UNITS.index(b) + 1)
                try:
                    run_coro(ff.register_active_user(b, a, "name of " + a))
                except Exception as e:
                    raised = e
                may_list.add((a, b))
            else:
                try:
                    run_coro(ff.unregister_active_user(b, a))
                except Exception as e:
                    raised = e
                if (a, b) in may_list:
                    may_list.discard((a, b))
                    dropped_by[(a, b)] = "unregistered"
            if kind != "disc":
                sym.check(raised is None, f"raises|{kind}|{type(raised).__name__}", f"{trace}: {kind} raised {raised!r}")
            for e in UNITS:
                listed = agg._engine_data_map[e].active_users
                for u in USERS:
                    sym.check(u not in listed or (u, e) in may_list,
                              f"listed|{dropped_by.get((u, e), 'never-registered')}",
                              f"{trace}: user {u} is still listed as active on {e} (reason it must not be: "
                              f"{dropped_by.get((u, e), 'never registered there')}); live connections: {sorted(conn_user.items())}")
        sym.note("trace", trace)


def _prefixes(depth, universe):
    """All index prefixes of the given depth that are enabled in the reference model (computed without the real code)."""
    out = []

    def rec(prefix, conn_user, closed, us, es):
        if len(prefix) == depth:
            out.append(list(prefix))
            return
        opts = _enabled(conn_user, closed, us, es, universe)
        for k, (kind, a, b) in enumerate(opts):
            cu, cl, us2, es2 = dict(conn_user), set(closed), us, es
            if kind == "sub":
                cu[a] = b
                us2 = max(us, USERS.index(b) + 1)
            elif kind == "disc":
                cu.pop(a, None)
                cl.add(a)
            elif kind == "reg":
                us2, es2 = max(us, USERS.index(a) + 1), max(es, UNITS.index(b) + 1)
            rec(prefix + [k], cu, cl, us2, es2)
    rec([], {}, set(), 0, 0)
    return out


def _shards(tier):
    def fam(n, universe, depth):
        return [{"n": n, "first": p, "universe": list(universe)} for p in _prefixes(depth, universe)]
    if tier == "quick":
        return fam(5, (1, 3, 2), 2) + fam(4, (2, 3, 2), 2)
    return fam(5, (2, 3, 2), 2) + fam(6, (2, 3, 1), 3) + fam(7, (1, 3, 1), 2)


OBLIGATIONS = [Obligation(
    name="active_users", kind="crosshair", harness=harness, shards=_shards,
    cpu_budget={"quick": 200.0, "thorough": 2500.0},
    encoded=["openpectus.aggregator.aggregator:FromFrontend.user_subscribed_pubsub",
             "openpectus.aggregator.aggregator:FromFrontend.on_ws_disconnect",
             "openpectus.aggregator.aggregator:FromFrontend.register_active_user",
             "openpectus.aggregator.aggregator:FromFrontend.unregister_active_user"],
    symbolic="the event history: per step a solver-chosen index into the events enabled in the reference state "
             "(subscribe, websocket close, register, unregister over 2 users, 3 connection ids, 2 units)",
    bounds={"quick": "all histories of 5 events with (1 user, 3 connections, 2 units); of 4 events with (2 users, 3 connections, 2 units)",
            "thorough": "all histories of 5 events with (2 users, 3 connections, 2 units); of 6 events with (2 users, 3 connections, 1 unit); of 7 events with (1 user, 3 connections, 1 unit)"},
    assumptions=["a connection id belongs to one user and is never reused after its websocket closed (ids are per-websocket uuids)",
                 "user, connection and unit ids are interchangeable: new ids are introduced in a fixed order (symmetry reduction)",
                 "FrontendPublisher replaced by a stub that records the callbacks FromFrontend registers and publishes nothing; asyncio.create_task is a no-op",
                 "process units are EngineData objects placed directly in the aggregator's engine map",
                 "lenient reading: a user who registers while having no live connection may or may not be listed",
                 "log statements removed at import (symbolic run only)"],
)]

MANIFEST = {
    "level": "model_checking",
    "text": "Bounded exhaustive exploration (CrossHair/z3 path enumeration) of the real FromFrontend.user_subscribed_pubsub / on_ws_disconnect / register_active_user / unregister_active_user, driven through the callbacks FromFrontend registers on the publisher: every history of subscribe, websocket close, register and unregister events within the bound is executed and compared after each event with a reference model written from the statement (a user may be listed only while registered and not after their last live connection closed).",
    "note": "The inputs are discrete event selectors, so the solver enumerates histories rather than abstracting values; one path = one history. Trusted: CrossHair's int model, z3, the reference model in props/C37.py. Stub publisher (records callbacks), engine data placed directly in the engine map, symmetry reduction over interchangeable ids, connection ids never reused; longer histories and more users/connections are outside the claim.",
    "technique": "symbolic execution of the real code (CrossHair + z3) against a reference model, bounded exhaustive over event histories, counterexample replay",
}
