"""C23  Hardware connection recovery follows the documented five-state protocol.

Real code: openpectus.engine.hardware_recovery.ErrorRecoveryDecorator (all of it except
_setup_decorated_method_forwards).  Reference model: written from docs/src/Error Recovery.rst and
the property statement, not from the code.
"""
from symx.obligation import Obligation
from props.hw_common import recovery_decorator

OPS = ["read", "read_batch", "write", "write_batch", "tick1", "tick6", "connect"]
RECONNECT_TIMEOUT = 10        # issue_timeout_seconds in the documentation
ERROR_TIMEOUT = 5 * 60 * 60   # error_timeout_seconds


def harness(sym):
    from openpectus.engine.hardware import HardwareLayerException
    from openpectus.engine.hardware_recovery import ErrorRecoveryState as S
    n = sym.shard.get("n", 3)
    connected0 = sym.shard.get("connected", True)
    with recovery_decorator(sym, connected=connected0) as (dec, hw, clock, regs, tag):
        A, B = regs
        # ---- reference model -----------------------------------------------------------------
        ref = "OK" if connected0 else "Disconnected"
        last_success = clock.now        # time of last successful read/write (or construction of the decorator)
        issue_since = None              # time state Issue was entered
        reconnect_since = None          # time state Reconnect was entered
        good = {}                       # register -> last value successfully read
        prefix = sym.shard.get("ops", [])
        trace = []
        sym.check(dec.state.name == ref, "init-state", f"initial state {dec.state.name} != {ref}")
        for i in range(n):
            op = prefix[i] if i < len(prefix) else sym.choice(f"op{i}", OPS)
            dt = sym.int(f"dt{i}", 0, 20000)
            clock.now = clock.now + dt
            fail = sym.bool(f"fail{i}")
            hw.fail = True if fail else False
            trace.append(op + ("!" if fail else ""))
            raised, ret = None, None
            attempts0 = hw.connects
            calls0 = hw.calls
            if op in ("read", "read_batch", "write", "write_batch"):
                if op.startswith("read"):
                    hw.mem["A"] = sym.int(f"ma{i}", -5, 5)
                    hw.mem["B"] = sym.int(f"mb{i}", -5, 5)
                try:
                    if op == "read":
                        ret = [dec.read(A)]
                    elif op == "read_batch":
                        ret = dec.read_batch([A, B])
                    elif op == "write":
                        dec.write(sym.int(f"v{i}", -5, 5), A)
                    else:
                        dec.write_batch([sym.int(f"va{i}", -5, 5), sym.int(f"vb{i}", -5, 5)], [A, B])
                except HardwareLayerException as e:
                    raised = e
                # --- reference transition + masking contract ---
                before = ref
                if ref in ("Disconnected", "Error"):
                    sym.check(raised is not None, f"no-raise-in-{ref}|op={op}", f"{trace}: {op} in state {ref} must raise")
                else:
                    sym.check(raised is None, f"raise-in-{ref}|op={op}", f"{trace}: {op} raised in state {ref}: {raised}")
                    attempted = hw.calls > calls0           # unchanged values are not re-written; in Reconnect the device is not touched
                    sym.check(attempted or before == "Reconnect" or op.startswith("write"), f"read-not-attempted|op={op}",
                              f"{trace}: {op} in state {before} did not reach the hardware")
                    if not attempted and before in ("OK", "Issue"):
                        pass                                # nothing observed, nothing changes
                    elif attempted and not fail:
                        ref = "OK"
                        last_success = clock.now
                        if op == "read":
                            good["A"] = hw.mem["A"]
                        elif op == "read_batch":
                            good["A"], good["B"] = hw.mem["A"], hw.mem["B"]
                    else:
                        if ref == "OK":
                            ref, issue_since = "Issue", clock.now
                        elif ref == "Issue":
                            # the documentation does not say whether the timeout runs from the last success or from
                            # entering Issue: beyond both -> Reconnect, before both -> Issue, in between either.
                            if clock.now - issue_since > RECONNECT_TIMEOUT:
                                ref, reconnect_since = "Reconnect", clock.now
                            elif clock.now - last_success >= RECONNECT_TIMEOUT:
                                ref = None
                        elif ref == "Reconnect":
                            el = clock.now - reconnect_since
                            if el > ERROR_TIMEOUT:
                                ref = "Error"
                            elif el == ERROR_TIMEOUT:
                                ref = None
                    if op.startswith("read") and before in ("Issue", "Reconnect", "OK"):
                        names = ["A"] if op == "read" else ["A", "B"]
                        if not (attempted and not fail):
                            for k, nm in enumerate(names):
                                sym.check(ret[k] == good.get(nm), f"masked-read-value|op={op}",
                                          f"{trace}: masked read of {nm} returned {ret[k]!r}, last good value {good.get(nm)!r}")
                        else:
                            for k, nm in enumerate(names):
                                sym.check(ret[k] == hw.mem[nm], f"read-value|op={op}", f"{trace}: read of {nm} wrong")
            elif op == "connect":
                hw.connect_fail = True if fail else False
                try:
                    dec.connect()
                except HardwareLayerException as e:
                    raised = e
                sym.check((raised is not None) == bool(fail), "connect-raise", f"{trace}: connect failure not propagated")
                if ref == "Disconnected" and not fail:
                    ref = "OK"
            else:
                hw.connect_fail = True if fail else False
                hw.fail = False
                for _ in range(1 if op == "tick1" else 6):
                    dec.tick()
                attempts = hw.connects - attempts0
                if ref in ("Reconnect", "Error"):
                    if attempts > 0:
                        ref = "OK"
                else:
                    sym.check(attempts == 0, f"reconnect-in-{ref}", f"{trace}: reconnect attempted in state {ref}")
            if ref is None:
                ref = dec.state.name if dec.state.name in (("Issue", "Reconnect") if before == "Issue" else ("Reconnect", "Error")) else "?"
                if ref == "Reconnect" and before == "Issue":
                    reconnect_since = clock.now
            sym.check(dec.state.name == ref, f"state|expected={ref}|op={op}",
                      f"{trace}: decorator state {dec.state.name}, protocol says {ref}")
            want = "Disconnected" if ref in ("Disconnected", "Error") else "Connected"
            sym.check(str(tag.get_value()) == want, f"connection-status|state={ref}",
                      f"{trace}: Connection Status {tag.get_value()!r} in state {ref}")
        sym.note("trace", trace)


def _shards(tier):
    # a prefix of three failing-capable reads lets the solver reach Reconnect/Error (it chooses the failure bits and the
    # elapsed times); the free operations after it include the reconnecting ticks
    deep = [{"n": 4, "ops": ["read", "read", "read"], "connected": True}, {"n": 4, "ops": ["write_batch", "read", "write"], "connected": True},
            {"n": 5, "ops": ["read", "read", "read", "tick6"], "connected": True}]
    if tier == "quick":
        return deep + [{"n": 3, "ops": [a], "connected": c} for a in OPS for c in (True, False)]
    deeper = [dict(d, n=d["n"] + 1) for d in deep]
    return deeper + [{"n": 4, "ops": [a, b], "connected": c} for a in OPS for b in OPS for c in (True, False)]


OBLIGATIONS = [Obligation(
    name="protocol", kind="crosshair", harness=harness, shards=_shards,
    cpu_budget={"quick": 120.0, "thorough": 1500.0},
    encoded=["openpectus.engine.hardware_recovery:ErrorRecoveryDecorator"],
    symbolic="per step: operation selector over read/read_batch/write/write_batch/tick/6 ticks/connect, hardware failure bit, reconnect outcome, "
             "elapsed integer seconds 0..20000 (crosses the 10 s and 18000 s timeouts by solver choice), device and written values",
    bounds={"quick": "3 operations from either initial state (connected / disconnected hardware), plus 4/5-operation sequences starting with read,read,read(,tick6) or write_batch,read,write (reach Error and recover)", "thorough": "4 operations from either initial state (every pair of first operations is a shard), plus the deep sequences with one more free operation (5/6 operations)"},
    assumptions=["hardware_recovery.time replaced by a harness clock (arbitrary non-decreasing integer seconds)",
                 "_setup_decorated_method_forwards stubbed", "decorated hardware = in-memory fake",
                 "at exactly timeout seconds either successor state is accepted (the documentation does not fix the boundary)",
                 "reconnect attempts happen on the decorator's own back-off ticks; the reference only requires: attempt succeeded => OK",
                 "log statements removed at import"],
)]

MANIFEST = {
    "level": "model_checking",
    "text": "Bounded exhaustive symbolic execution (CrossHair/z3) of the real ErrorRecoveryDecorator against a reference transition function written from the documentation: all operation sequences of length 3 (quick) / 5 (thorough) with symbolic failure bits, values and elapsed time.",
    "note": "Trusted: CrossHair int/bool models, z3, the reference model in props/C23.py; harness clock; fake hardware; longer sequences outside the claim.",
    "technique": "symbolic execution of the real code (CrossHair + z3) against a reference state machine, bounded exhaustive, counterexample replay",
}
