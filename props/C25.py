"""C25  Composite hardware is transparent.

Real code: openpectus.engine.composite_hardware.Composite_Hardware.read / read_batch / write / write_batch
(and HardwareLayerBase.read_batch / write_batch of the layers underneath).

Every register is put on one of four fake layers by the solver; each layer is an in-memory register file
with an arbitrary (symbolic) initial content.  A twin set of layers with the same content is driven
register by register, directly on the layer that owns the register.  After every composite call the value
lists returned and the complete memories of all layers (also the ones that must not be touched) are
compared with the twin.

Because the composite has no state of its own, one call from an arbitrary memory is the induction step
for call sequences; obligation `sequences` additionally runs short sequences of calls (the same
register in several batches) to cover state the composite might keep between calls.
"""
from symx.obligation import Obligation
from props.io_common import same as _same, lazy_check as _check

N_LAYERS = 4
OPS = ["write_batch", "read_batch", "write", "read"]
# input names are built once here: f-strings executed under the tracer are slow
_LAYER = [f"layer{i}" for i in range(8)]
_INIT = [f"init{i}" for i in range(8)]
_REG = [f"R{i}" for i in range(8)]
_TAGS = ["a", "s0", "s1", "s2", "s3"]
_RNAME = {t: [f"{t}r{j}" for j in range(8)] for t in _TAGS}
_VNAME = {t: [f"{t}v{j}" for j in range(8)] for t in _TAGS}
_LEN = [f"len{k}" for k in range(8)]


def _build(sym, nregs):
    """(composite, registers, layers, twin layers): real Composite_Hardware over fake register-file layers."""
    from openpectus.engine.hardware import HardwareLayerBase, Register, RegisterDirection
    from openpectus.engine.composite_hardware import Composite_Hardware

    class MemLayer(HardwareLayerBase):
        """In-memory register file.  read_batch/write_batch are the base-class loops over read/write."""

        def __init__(self, ident):
            super().__init__()
            self.ident = ident
            self.mem = {}

        def read(self, r):
            return self.mem.get(r.name, ("unset", self.ident, r.name))

        def write(self, value, r):
            self.mem[r.name] = value

    with sym.concrete():
        layers = [MemLayer(i) for i in range(N_LAYERS)]
        twins = [MemLayer(i) for i in range(N_LAYERS)]
        comp = Composite_Hardware()
    owner = [sym.index(_LAYER[i], N_LAYERS) for i in range(nregs)]
    with sym.concrete():
        regs = [Register(_REG[i], RegisterDirection.Both, hardware=layers[owner[i]]) for i in range(nregs)]
        for r in regs:
            comp._registers[r.name] = r
            layers[r.options["hardware"].ident]._registers[r.name] = r
    for i in range(nregs):
        v = sym.int(_INIT[i], -2**31, 2**31)
        layers[owner[i]].mem[_REG[i]] = v
        twins[owner[i]].mem[_REG[i]] = v
    return comp, regs, owner, layers, twins


def _compare_memories(sym, layers, twins, op, trace):
    for k in range(N_LAYERS):
        a, b = layers[k].mem, twins[k].mem
        with sym.concrete():
            same_keys = sorted(a.keys()) == sorted(b.keys())
        _check(sym, same_keys, "memory-registers|op=" + op,
               lambda: f"{trace}: layer {k} holds registers {sorted(a.keys())}, per-register access gives {sorted(b.keys())}")
        for name in b:
            _check(sym, _same(a[name], b[name]), "memory-value|op=" + op,
                   lambda: f"{trace}: layer {k} register {name} differs from the result of writing the pairs one by one")


def _one_op(sym, tag, op, length, comp, regs, owner, layers, twins, trace, prefix=()):
    n = len(regs)
    if op in ("write", "read"):
        length = 1
    idx = [prefix[j] if j < len(prefix) else sym.index(_RNAME[tag][j], n) for j in range(length)]
    trace.append((op, idx))
    if op == "write_batch":
        vals = [sym.int(_VNAME[tag][j], -2**31, 2**31) for j in range(length)]
        comp.write_batch(vals, [regs[i] for i in idx])
        for v, i in zip(vals, idx):
            twins[owner[i]].write(v, regs[i])
    elif op == "write":
        v = sym.int(_VNAME[tag][0], -2**31, 2**31)
        comp.write(v, regs[idx[0]])
        twins[owner[idx[0]]].write(v, regs[idx[0]])
    elif op == "read_batch":
        got = comp.read_batch([regs[i] for i in idx])
        want = [twins[owner[i]].read(regs[i]) for i in idx]
        _check(sym, isinstance(got, list) and len(got) == len(want), "read-batch-length",
               lambda: f"{trace}: read_batch returned {len(got) if isinstance(got, list) else type(got).__name__} values for {len(want)} registers")
        for j in range(length):
            _check(sym, _same(got[j], want[j]), "read-batch-value",
                   lambda: f"{trace}: read_batch position {j} (register R{idx[j]}) is not the value of that register on its own layer")
    else:
        got = comp.read(regs[idx[0]])
        _check(sym, _same(got, twins[owner[idx[0]]].read(regs[idx[0]])), "read-value",
               lambda: f"{trace}: read of R{idx[0]} is not the value of that register on its own layer")
    _compare_memories(sym, layers, twins, op, trace)


def harness_step(sym):
    sh = sym.shard
    comp, regs, owner, layers, twins = _build(sym, sh["nregs"])
    trace = []
    _one_op(sym, "a", sh["op"], sh["len"], comp, regs, owner, layers, twins, trace, sh.get("prefix", ()))
    sym.note("trace", trace)
    sym.note("owner", owner)


def harness_seq(sym):
    sh = sym.shard
    comp, regs, owner, layers, twins = _build(sym, sh["nregs"])
    trace = []
    for k, op in enumerate(sh["ops"]):
        length = sym.index(_LEN[k], sh["maxlen"] + 1) if op.endswith("batch") else 1
        _one_op(sym, _TAGS[k + 1], op, length, comp, regs, owner, layers, twins, trace)
    sym.note("trace", trace)
    sym.note("owner", owner)


def _shards_step(tier):
    """Shards fix the call, the batch length and (for long batches) the registers at the first batch positions."""
    out = []
    for op in ("write_batch", "read_batch"):
        for ln in range(0, 3):
            out.append({"op": op, "len": ln, "nregs": 4})
        if tier == "quick":
            out.append({"op": op, "len": 3, "nregs": 3})
            for a in range(3):
                out.append({"op": op, "len": 4, "nregs": 3, "prefix": [a]})
        else:
            for a in range(4):
                out.append({"op": op, "len": 3, "nregs": 4, "prefix": [a]})
                for b in range(4):
                    out.append({"op": op, "len": 4, "nregs": 4, "prefix": [a, b]})
            for a in range(3):
                for b in range(3):
                    out.append({"op": op, "len": 5, "nregs": 3, "prefix": [a, b]})
    out.append({"op": "write", "len": 1, "nregs": 4})
    out.append({"op": "read", "len": 1, "nregs": 4})
    return out


def _shards_seq(tier):
    if tier == "quick":
        return ([{"ops": [a, b], "nregs": 2, "maxlen": 2} for a in OPS for b in OPS]
                + [{"ops": [a, b, c], "nregs": 2, "maxlen": 1} for a in ("write_batch", "write") for b in OPS for c in ("write_batch", "write")])
    return [{"ops": [a, b, c], "nregs": 2, "maxlen": 2} for a in OPS for b in OPS for c in OPS]


_ENC = ["openpectus.engine.composite_hardware:Composite_Hardware.read",
        "openpectus.engine.composite_hardware:Composite_Hardware.read_batch",
        "openpectus.engine.composite_hardware:Composite_Hardware.write",
        "openpectus.engine.composite_hardware:Composite_Hardware.write_batch",
        "openpectus.engine.hardware:HardwareLayerBase.read_batch",
        "openpectus.engine.hardware:HardwareLayerBase.write_batch"]
_ASSUME = ["layers = in-memory register files (subclass of the real HardwareLayerBase, its read_batch/write_batch loops are used); "
           "reading has no side effect on a layer",
           "register values are ints (the composite never inspects values)",
           "oracle = returned value lists and the final per-layer memories; the order in which different layers are visited "
           "and the intermediate value of a register written twice inside one batch are not compared (the statement does not fix them)",
           "log statements removed at import"]

OBLIGATIONS = [
    Obligation(
        name="single_call", kind="crosshair", harness=harness_step, shards=_shards_step,
        cpu_budget={"quick": 80.0, "thorough": 800.0}, encoded=_ENC,
        symbolic="layer index of every register (0..3, solver-chosen), register index at every batch position (duplicates allowed), "
                 "arbitrary initial content of every register (32-bit ints), written values (32-bit ints)",
        bounds={"quick": "one call from an arbitrary memory: read / write / read_batch / write_batch of length 0..2 over 4 registers, "
                         "and of length 3..4 over 3 registers; every register on any of 4 layers",
                "thorough": "one call from an arbitrary memory: read / write / read_batch / write_batch of length 0..4 over 4 registers "
                            "and of length 5 over 3 registers, every register on any of 4 layers"},
        assumptions=_ASSUME),
    Obligation(
        name="sequences", kind="crosshair", harness=harness_seq, shards=_shards_seq,
        cpu_budget={"quick": 80.0, "thorough": 800.0}, encoded=_ENC,
        symbolic="as single_call, plus the length of every batch",
        bounds={"quick": "2 registers on up to 4 layers; every sequence of 2 calls over {write_batch, read_batch, write, read}, batch length 0..2; every sequence write-call, any call, write-call with batch length 0..1",
                "thorough": "2 registers on up to 4 layers; every sequence of 3 calls, batch length 0..2"},
        assumptions=_ASSUME),
]

MANIFEST = {
    "level": "model_checking",
    "text": "Bounded exhaustive symbolic execution (CrossHair/z3) of the real Composite_Hardware.read/read_batch/write/write_batch over fake in-memory layers: "
            "every assignment of the registers to up to four layers, every batch order including duplicates, symbolic (32-bit) memory contents and written values; "
            "after each call the returned lists and all layer memories are compared with a twin driven register by register on the owning layer. "
            "One call from an arbitrary memory (induction step, the composite is stateless) plus all short call sequences.",
    "note": "Quick: batches of length 0..2 over 4 registers and 3..4 over 3 registers, 2-call sequences over 2 registers; thorough: batch length 0..4 over 4 registers and 5 over 3 registers, "
            "3-call sequences over 2 registers. Layer index and batch positions are solver selectors (one path each), values stay symbolic (one path stands for all values). "
            "Not compared: the order in which different layers are visited and the intermediate value of a register written twice inside one batch. Trusted: CrossHair int model, z3, the fake layers.",
    "technique": "symbolic execution of the real code (CrossHair + z3), bounded exhaustive path exploration against a per-register twin, counterexample replay",
}
