"""C14  Injected code runs once in the current scope, even across edits.

Real code: the whole engine; subject = Engine.inject_code, MethodManager.parse_inject_code, PInterpreter.inject_node /
visit_InjectedNode, Tracking.create_injected_node_records, interrupt re-creation in _create_interpreter_from_state,
CommandManager (UOD command started by the snippet).

Solver variables: injection tick, duration of the snippet's UOD command, start tick of an optional Pause or Hold
window, tick of an optional live edit after the injection.
"""
from symx.obligation import Obligation
from props.engine_common import engine_rig

METHOD = ["Mark: M1", "Wait: 1s", "Mark: M2", "Mark: M3"]
# a method whose main flow passes through a Block that ends while injected code may still be running
METHOD_BLOCK = ["Mark: M1", "Block: B", "    Mark: M2", "    Mark: M3", "    End block", "Mark: M4", "Mark: M5"]
SNIPPETS = {
    "mark": ("Mark: I1", ["I1"], False),
    "uod": ("CmdA", [], True),
    "wait_mark": ("Wait: 0.2s\nMark: I2", ["I2"], False),
    "block": ("Block: IB\n    Mark: I3\n    End block", ["I3"], False),
    "two_marks_uod": ("Mark: I4\nCmdA\nMark: I5", ["I4", "I5"], True),
}
N = 26


def _run(sym, snippet, inj_tick, window, edit_tick, durations):
    import openpectus.protocol.models as Mdl
    METHOD = METHOD_BLOCK if sym.shard.get("method") == "block" else globals()["METHOD"]
    ids = [f"id_{i + 1}" for i in range(len(METHOD))]
    obs = {"mark_ticks": {}, "states": [], "uod": None, "errors": None, "inject_error": None, "edit_outcome": None}
    with engine_rig(sym, None, durations=durations) as rig:
        e = rig.engine
        e.set_method(Mdl.Method(lines=[Mdl.MethodLine(id=i, content=c) for i, c in zip(ids, METHOD)], version=0))
        rig.user("Start")
        for t in range(N):
            if window is not None:
                kind, w0 = window
                if w0 == t:
                    rig.user(kind)
                if w0 + 3 == t:
                    rig.user("Unpause" if kind == "Pause" else "Unhold")
            if inj_tick is not None and inj_tick == t:
                try:
                    e.inject_code(snippet)
                except Exception as ex:
                    obs["inject_error"] = repr(ex)
            if edit_tick is not None and edit_tick == t:
                old = e.method_manager._method
                lines = [Mdl.MethodLine(id=ln.id, content=ln.content) for ln in old.lines] + [Mdl.MethodLine(id="appended", content="Mark: APP")]
                try:
                    e.set_method(Mdl.Method(lines=lines, version=0))
                    obs["edit_outcome"] = "accepted"
                except Exception as ex:
                    obs["edit_outcome"] = type(ex).__name__
            st_before = rig.system_state
            seen = set(rig.marks())
            rig.tick(0.1)
            st_after = rig.system_state
            obs["states"].append((st_before, st_after))
            for m in rig.marks():
                if m not in seen:
                    obs["mark_ticks"].setdefault(m, []).append(t)
        ms = rig.method_state()
        obs["method_state"] = {"started": sorted(x for x in ms.started_line_ids if x in ids or x == "root"),
                               "executed": sorted(x for x in ms.executed_line_ids if x in ids)}
        obs["marks"] = rig.marks()
        obs["uod"] = [(tk, n, ev) for (tk, n, _i, ev) in rig.rec.uod]
        obs["errors"] = list(rig.tick_errors)
        obs["instances"] = list(e.uod.command_instances)
        obs["method_error"] = e.has_error_state()
    return obs


def harness(sym):
    name = sym.shard["snippet"]
    snippet, marks, has_uod = SNIPPETS[name]
    wkind = sym.shard.get("window")
    with_edit = sym.shard.get("edit", False)
    durations = {"CmdA": sym.int("dur_CmdA", 1, 5)} if has_uod else {}
    ti = sym.int("inj_tick", 1, 12)
    window = (wkind, sym.int("win_tick", 1, 12)) if wkind else None
    te = None
    if with_edit:
        te = sym.int("edit_tick", 2, 16)
        sym.assume(te > ti)
    a = _run(sym, snippet, ti, window, te, durations)
    desc = lambda: f"snippet {name!r} injected at tick {sym.realize(ti)}, window {(wkind, sym.realize(window[1])) if window else None}, edit at {sym.realize(te) if te is not None else None} ({a['edit_outcome']})"   # noqa: E731
    sym.check(not a["errors"], "tick-raised", lambda: f"{desc()}: Engine.tick raised {a['errors'][:1]}")
    sym.check(a["inject_error"] is None, "inject-refused", lambda: f"{desc()}: inject_code raised {a['inject_error']}")
    edited = a["edit_outcome"] == "accepted"
    # exactly once (by the end of the run; the run is long enough for every snippet)
    for m in marks:
        cnt = a["marks"].count(m)
        sym.check(cnt == 1, f"injected-effect-count|edited={edited}|count={'0' if cnt == 0 else 'many'}",
                  lambda: f"{desc()}: injected Mark {m} ran {cnt} times; marks {a['marks']}")
        for tk in a["mark_ticks"].get(m, []):
            sb, sa = a["states"][tk]
            sym.check(sb == "Running" or sa == "Running", "injected-effect-while-paused-or-held",
                      lambda: f"{desc()}: injected Mark {m} ran in tick {tk} with System State {sb}->{sa}")
    if has_uod:
        inits = [x for x in a["uod"] if x[1] == "CmdA" and x[2] == "init"]
        finals = [x for x in a["uod"] if x[1] == "CmdA" and x[2] == "final"]
        sym.check(len(inits) == 1, f"injected-uod-init-count|edited={edited}", lambda: f"{desc()}: CmdA callbacks {a['uod']}")
        sym.check(len(finals) == len(inits) and not a["instances"], f"injected-uod-not-finalized|edited={edited}",
                  lambda: f"{desc()}: CmdA callbacks {a['uod']}, instances left {a['instances']}")
    # the method's own progress is what it is without the injection (same schedule, no injection, no edit)
    if not edited:
        b = _run(sym, snippet, None, window, None, durations)
        if not a["method_error"] and not b["method_error"]:
            both_blocks = "|injected-block-beside-method-block" if (name == "block" and sym.shard.get("method") == "block") else ""
            sym.check(a["method_state"] == b["method_state"], "injection-changed-method-state" + both_blocks,
                      lambda: f"{desc()}: method state with injection {a['method_state']}, without {b['method_state']}")
            own = [m for m in a["marks"] if m.startswith("M")]
            sym.check(own == [m for m in b["marks"] if m.startswith("M")], "injection-changed-method-effects" + both_blocks,
                      lambda: f"{desc()}: method marks with injection {own}, without {b['marks']}")


def harness_two(sym):
    """Two injections whose executions overlap in time: each snippet still runs exactly once."""
    import openpectus.protocol.models as Mdl
    first, second = sym.shard["first"], sym.shard["second"]
    s1, marks1, uod1 = SNIPPETS[first]
    s2, marks2, uod2 = SNIPPETS[second]
    s2 = s2.replace("I1", "J1").replace("I2", "J2").replace("I3", "J3").replace("I4", "J4").replace("I5", "J5").replace("IB", "JB").replace("CmdA", "CmdB")
    marks2 = [m.replace("I", "J") for m in marks2]
    durations = {"CmdA": sym.int("dur_CmdA", 1, 6), "CmdB": sym.int("dur_CmdB", 1, 6)}
    t1 = sym.int("inj1_tick", 1, 8)
    t2 = sym.int("inj2_tick", 1, 12)
    sym.assume(t2 >= t1)
    ids = [f"id_{i + 1}" for i in range(len(METHOD))]
    with engine_rig(sym, None, durations=durations) as rig:
        e = rig.engine
        e.set_method(Mdl.Method(lines=[Mdl.MethodLine(id=i, content=c) for i, c in zip(ids, METHOD)], version=0))
        rig.user("Start")
        errs = []
        for t in range(N + 6):
            if t1 == t:
                try:
                    e.inject_code(s1)
                except Exception as ex:
                    errs.append(repr(ex))
            if t2 == t:
                try:
                    e.inject_code(s2)
                except Exception as ex:
                    errs.append(repr(ex))
            rig.tick(0.1)
        desc = lambda: f"{first!r} injected at tick {sym.realize(t1)}, {second!r} at tick {sym.realize(t2)}"   # noqa: E731
        sym.check(not rig.tick_errors and not errs, "tick-or-inject-raised|two-injections", lambda: f"{desc()}: {rig.tick_errors[:1]} {errs[:1]}")
        sym.check(not e.has_error_state(), "method-error|two-injections", lambda: f"{desc()}: {e.get_error_state_exception()!r}")
        marks = rig.marks()
        for m in marks1 + marks2:
            cnt = marks.count(m)
            sym.check(cnt == 1, f"injected-effect-count|two-injections|count={'0' if cnt == 0 else 'many'}",
                      lambda: f"{desc()}: injected Mark {m} ran {cnt} times; marks {marks}")
        for name, has in (("CmdA", uod1), ("CmdB", uod2)):
            if has:
                inits = [x for x in rig.rec.uod if x[1] == name and x[3] == "init"]
                finals = [x for x in rig.rec.uod if x[1] == name and x[3] == "final"]
                sym.check(len(inits) == 1 and len(finals) == 1, "injected-uod-pairing|two-injections",
                          lambda: f"{desc()}: {name} callbacks {[(x[0], x[3]) for x in rig.rec.uod if x[1] == name]}")


def _shards(tier):
    out = []
    for s in SNIPPETS:
        out.append({"snippet": s})
        if tier != "quick" or s in ("mark", "uod", "two_marks_uod"):
            out.append({"snippet": s, "window": "Pause"})
            out.append({"snippet": s, "window": "Hold"})
        out.append({"snippet": s, "edit": True})
        if tier != "quick" or s in ("two_marks_uod", "wait_mark"):
            out.append({"snippet": s, "method": "block"})
    return out


_TWO = Obligation(
    name="two_injections", kind="crosshair", harness=harness_two, cpu_budget={"quick": 400.0, "thorough": 2400.0},
    shards=lambda tier: [{"first": a, "second": b} for a in (("uod", "two_marks_uod") if tier == "quick" else SNIPPETS)
                         for b in (("wait_mark", "mark") if tier == "quick" else SNIPPETS)],
    encoded=["openpectus.engine.engine:Engine.inject_code", "openpectus.engine.method_manager:MethodManager.parse_inject_code",
             "openpectus.lang.exec.pinterpreter:PInterpreter.inject_node", "openpectus.lang.exec.tracking:Tracking.create_injected_node_records"],
    symbolic="ticks of the two injections (second not before the first), durations of the two UOD commands (1..6)",
    bounds={"quick": "first snippet in {UOD command, Mark+UOD+Mark}, second in {Wait+Mark, Mark}", "thorough": "all 25 ordered pairs of snippets"},
    assumptions=["the second snippet uses distinct mark names and CmdB instead of CmdA", "fake hardware; log statements removed at import"])

OBLIGATIONS = [_TWO, Obligation(
    name="injection", kind="crosshair", harness=harness, shards=_shards, cpu_budget={"quick": 400.0, "thorough": 2400.0},
    encoded=["openpectus.engine.engine:Engine.inject_code", "openpectus.lang.exec.pinterpreter:PInterpreter.inject_node",
             "openpectus.lang.exec.pinterpreter:PInterpreter.visit_InjectedNode", "openpectus.lang.exec.tracking:Tracking.create_injected_node_records",
             "openpectus.engine.method_manager:MethodManager._create_interpreter_from_state", "openpectus.engine.command_manager:CommandManager._execute_uod_command"],
    symbolic="injection tick (1..12), UOD command duration (1..5), start tick of a 3-tick Pause/Hold window (1..12), tick of a live edit after the injection (..16)",
    bounds={"quick": "5 snippets (Mark; UOD command; Wait+Mark; Block..End block; Mark+UOD+Mark) x {plain, Pause window, Hold window (3 snippets), followed by an append edit}, 26 ticks; 2 snippets injected into a method whose main flow passes through a Block that ends",
            "thorough": "windows for all snippets"},
    assumptions=["one injection per run; the live edit appends one line", "tick interval fixed; fake hardware; log statements removed at import"],
)]

MANIFEST = {
    "level": "model_checking",
    "text": "Bounded exhaustive symbolic execution (CrossHair/z3) of the real engine: snippets injected at a solver-chosen tick, with Pause/Hold windows and a following live edit at solver-chosen ticks; injected effects are counted and located, and the method's own state and effects are compared with the same run without injection.",
    "note": "Trusted: CrossHair/z3; five snippets, one injection per run, 26 ticks.",
    "technique": "symbolic execution of the real engine (CrossHair + z3), bounded exhaustive over injection/pause/edit ticks, differential oracle, counterexample replay",
}
