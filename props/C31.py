"""C31  Method saves use optimistic concurrency without lost updates.

Real code: openpectus.aggregator.aggregator.FromFrontend.save_method (and, in the `router` shards, the REST endpoint
function openpectus.aggregator.routers.process_unit.save_method above it).

The real coroutines are advanced by hand (`coro.send(None)`) across their await on the dispatcher.  Solver variables:
the stored method version, the base version of every save request (ints), the schedule (which request is started /
which engine reply arrives next: one selector per step) and the engine's reply per request (success, caller error,
internal error, transport exception).

Oracle (statement only): a save that returns normally ("accepted") must have been based on the version stored at that
moment; no two accepted saves share a base version; an accepted save raises the stored version by exactly one; a save
that is refused leaves the stored version alone.
"""
from symx.obligation import Obligation
from props.agg_common2 import unvalidated_init, patched, expect, Suspend, MiniLoop, Stepper

REPLIES = ["ok", "caller_error", "internal_error", "transport_exception"]


class _Ver:
    """A version number during the symbolic run: a solver int that can be compared and incremented but renders as a fixed
    token.  (save_method formats both versions into its exception text; formatting a solver int makes CrossHair enumerate
    its values one path at a time.)  Replays use plain ints."""
    __slots__ = ("n",)
    __hash__ = None

    def __init__(self, n):
        self.n = n

    def __eq__(self, o):
        return self.n == (o.n if isinstance(o, _Ver) else o)

    def __ne__(self, o):
        return self.n != (o.n if isinstance(o, _Ver) else o)

    def __add__(self, k):
        return _Ver(self.n + (k.n if isinstance(k, _Ver) else k))

    __radd__ = __add__

    def __index__(self):
        return self.n

    __int__ = __index__

    def __ch_deep_realize__(self, memo):      # CrossHair's f-string hook: do not concretise the wrapped int
        return self

    def __format__(self, spec):
        return "<version>"

    def __repr__(self):
        return "<version>"

    __str__ = __repr__


def _raw(v):
    return v.n if isinstance(v, _Ver) else v


def _fixture(sym, v0):
    """FromFrontend over one registered engine with a fake dispatcher; returns (from_frontend, engine_data, dispatcher)."""
    import openpectus.aggregator.aggregator as A
    import openpectus.aggregator.models as Mdl
    import openpectus.protocol.messages as M
    from openpectus.protocol.exceptions import ProtocolException

    class Dispatcher:
        def __init__(self):
            self.sent = []          # messages that reached the engine, in order
            self.reply = {}         # id(method message) -> reply kind, set by the harness before resuming

        async def rpc_call(self, engine_id, message):
            self.sent.append(message)
            await Suspend()         # the engine round-trip
            kind = self.reply[id(message)]
            if kind == "ok":
                return M.SuccessMessage()
            if kind == "caller_error":
                return M.ErrorMessage(message="engine refused", caller_error=True)
            if kind == "internal_error":
                return M.ErrorMessage(message="engine failed", caller_error=False)
            raise ProtocolException("Error in rpc call")

    class _Any:
        def __getattr__(self, name):
            return _Any()

        def __call__(self, *a, **k):
            return None

    class Publisher:
        pubsub_endpoint = _Any()

        def register_on_disconnect(self, cb):
            pass

        async def publish_method_changed(self, engine_id):
            return None

    with sym.concrete():
        ed = Mdl.EngineData(engine_id="E1", computer_name="pc", engine_version="1", uod_name="uod", uod_author_name="a",
                            uod_author_email="a@b", uod_filename="uod.py", location="lab")
        ed.method = Mdl.Method.model_construct(lines=[], version=v0, last_author="")
        ff = A.FromFrontend({"E1": ed}, Dispatcher(), Publisher(), None)
    return ff, ed, ff.dispatcher


def harness(sym):
    import asyncio
    import asyncio.events as aev
    import openpectus.aggregator.models as Mdl
    import openpectus.aggregator.routers.dto as Dto
    import openpectus.aggregator.routers.process_unit as PU
    n = sym.shard["n"]
    via_router = sym.shard.get("via") == "router"
    prefix = sym.shard.get("sched", [])
    mk = _Ver if sym.mode == "symbolic" else int
    v0 = sym.int("v0", 0, 1_000_000)
    ff, ed, disp = _fixture(sym, mk(v0))
    bases = [sym.int(f"base{i}", 0, 1_000_000) for i in range(n)]
    stored = lambda: _raw(ed.method.version)

    class Agg:
        from_frontend = ff

        def get_registered_engine_data(self, engine_id):
            return ff._engine_data_map.get(engine_id)

    def fake_create_task(coro, **_k):
        coro.close()

    def make_call(i):
        if via_router:
            with sym.concrete():
                dto = Dto.Method.model_construct(lines=[Dto.MethodLine.model_construct(id="l1", content=f"Mark: {i}")],
                                                 version=mk(bases[i]))
            return PU.save_method(user_name="Anon", user_id=None, user_roles=set(), unit_id="E1", method_dto=dto, agg=Agg())
        with sym.concrete():
            m = Mdl.Method.model_construct(lines=[Mdl.MethodLine.model_construct(id="l1", content=f"Mark: {i}")],
                                           version=mk(bases[i]), last_author=f"user{i}")
            user = Mdl.Contributor(id=None, name=f"user{i}")
        return ff.save_method("E1", m, user)

    loop = MiniLoop()
    steppers = [None] * n
    stale_at_request = [None] * n
    accepted_bases = []
    tainted = []          # saves accepted on a stale version (only continues past this with a recorded known finding)
    trace = []

    def settle():
        # run whatever became runnable without a scheduling decision (only relevant if the code awaits asyncio primitives)
        progress = True
        while progress:
            progress = False
            loop.run_ready()
            for j, s in enumerate(steppers):
                if s is not None and s.runnable():
                    before = stored()
                    s.step()
                    finished(j, before)
                    progress = True

    def finished(i, stored_before):
        s = steppers[i]
        if s.state != "done":
            return
        stored_after = stored()
        if s.exception is not None:
            sym.check(stored_after == stored_before, "refused-save-changed-version",
                      f"{trace}: save {i} raised {type(s.exception).__name__} but the stored version changed")
            return
        # accepted
        sym.reach()
        accepted_before = list(accepted_bases)
        accepted_bases.append(bases[i])
        if stale_at_request[i]:
            if not expect(sym, bases[i] == stored_before, "accepted-on-stale-version|stale-at-request",
                          f"{trace}: save {i} was based on a version that was not current when it was requested, and was accepted"):
                tainted.append(i)
                return
        if not expect(sym, bases[i] == stored_before, "accepted-on-stale-version|version-moved-during-engine-roundtrip",
                      f"{trace}: save {i} was accepted although another save had been accepted on the same base version "
                      f"while it was waiting for the engine (check before await, update after)"):
            tainted.append(i)       # everything after this point is a consequence of the lost update
            return
        sym.check(not any(b == bases[i] for b in accepted_before), "two-accepted-saves-same-base-version",
                  f"{trace}: two saves based on the same version were both accepted")
        sym.check(stored_after == stored_before + 1, "accepted-save-version-step-not-1",
                  f"{trace}: accepted save {i} did not raise the stored version by exactly one")

    models = (Mdl.Method, Mdl.MethodLine, Dto.MethodVersion) if via_router else ()
    with unvalidated_init(sym, *models), patched(sym, asyncio, "create_task", fake_create_task):
        with sym.concrete():
            prev_loop = aev._get_running_loop()
            aev._set_running_loop(loop)
        try:
            step_no = 0
            while True:
                enabled = [("start", i) for i in range(n) if steppers[i] is None] + \
                          [("reply", i) for i in range(n) if steppers[i] is not None and steppers[i].state == "suspended"]
                if not enabled or tainted:
                    break
                if step_no < len(prefix) and tuple(prefix[step_no]) in enabled:
                    act, i = tuple(prefix[step_no])
                elif step_no < len(prefix):
                    sym.assume(False)       # this shard's schedule prefix is not executable: nothing to explore
                else:
                    act, i = enabled[0] if len(enabled) == 1 else sym.choice(f"step{step_no}", enabled)
                step_no += 1
                stored_before = stored()
                if act == "start":
                    trace.append(f"request{i}")
                    stale_at_request[i] = bases[i] != stored_before
                    steppers[i] = Stepper(make_call(i))
                    steppers[i].step()
                else:
                    kind = sym.choice(f"reply{i}", REPLIES)
                    trace.append(f"engine-reply{i}:{kind}")
                    msgs = [m for m in disp.sent if m.method.lines[0].content == f"Mark: {i}"]
                    disp.reply[id(msgs[0])] = kind
                    steppers[i].step()
                finished(i, stored_before)
                settle()
            if not tainted:
                blocked = [i for i in range(n) if steppers[i] is None or steppers[i].state != "done"]
                sym.check(not blocked, "save-never-completes", f"{trace}: saves {blocked} never completed")
            sym.reach()
        finally:
            for s in steppers:
                if s is not None:
                    s.close()
            with sym.concrete():
                aev._set_running_loop(prev_loop)
    sym.note("trace", trace)


def _shards(tier):
    out = []
    vias = ["direct", "router"]
    if tier == "quick":
        for via in vias:
            for first in (("start", 0), ("start", 1)):
                out.append({"n": 2, "via": via, "sched": [list(first)]})
        for b in (("start", 1), ("start", 2), ("reply", 0)):
            out.append({"n": 3, "via": "direct", "sched": [["start", 0], list(b)]})
        return out
    for via in vias:
        out.append({"n": 2, "via": via, "sched": []})
        for a in range(3):
            for b in [("start", j) for j in range(3) if j != a] + [("reply", a)]:
                out.append({"n": 3, "via": via, "sched": [["start", a], list(b)]})
    return out


OBLIGATIONS = [Obligation(
    name="concurrent_saves", kind="crosshair", harness=harness, shards=_shards,
    cpu_budget={"quick": 80.0, "thorough": 1500.0},
    encoded=["openpectus.aggregator.aggregator:FromFrontend.save_method",
             "openpectus.aggregator.routers.process_unit:save_method",
             "openpectus.aggregator.routers.process_unit:get_registered_engine_data_or_fail"],
    symbolic="stored version and the base version of every request (ints 0..10^6, only compared/incremented), schedule selector per step "
             "(start request i / deliver engine reply i), engine reply kind per request",
    bounds={"quick": "2 concurrent save requests on one engine, every interleaving of request start and engine reply; 3 concurrent requests (direct calls) on the schedules that begin with request 0",
            "thorough": "3 concurrent save requests (and 2), every interleaving"},
    assumptions=["dispatcher = fake whose rpc_call records the message, suspends once (the engine round-trip) and answers as the solver chooses",
                 "coroutines advanced by hand; asyncio.create_task (publish_method_changed) is a no-op; a minimal loop object stands in for the running loop",
                 "version numbers are solver ints wrapped in an object that compares/increments like the int but formats as a fixed token (save_method puts them into exception texts; formatting would enumerate values); replays use plain ints",
                 "FrontendPublisher = fake (pubsub registration ignored); contributor id None (no web push)",
                 "router shards: Mdl.Method/MethodLine/Dto.MethodVersion constructors store fields unvalidated during the symbolic run (pydantic-core C boundary); replay uses the real ones",
                 "the engine accepts any method it is sent unless the solver picks an error reply",
                 "log statements removed at import"],
)]

MANIFEST = {
    "level": "model_checking",
    "text": "Bounded exhaustive symbolic execution (CrossHair/z3) of the real FromFrontend.save_method coroutines (directly and through the REST endpoint function), advanced by hand across their await on a fake dispatcher: every interleaving of 2 (quick) / 3 (thorough) concurrent save requests with symbolic stored/base versions and solver-chosen engine replies is covered path by path.",
    "note": "Trusted: CrossHair int/bool models, z3, the hand scheduler in props/agg_common2.py (one suspension per engine round-trip; asyncio primitives such as a lock are served by a minimal loop object). Version numbers are solver ints that render as a fixed token when formatted into exception texts. More than 3 concurrent saves and more than one engine are outside the claim.",
    "technique": "symbolic execution of the real coroutines (CrossHair + z3), solver-chosen schedule, bounded exhaustive, counterexample replay on the unmodified code",
}
