"""C18  Instruction lines decompose into exactly their parts.

Real code: openpectus.lang.model.parser.PcodeParser._parse_line / _parse_tag_operator_value, Grammar.* (the regular
expressions are the live compiled objects), openpectus.lang.exec.units.get_supported_units (unit catalogue).

 tov_symbolic  _parse_tag_operator_value under CrossHair: the tag name is a symbolic string (letters, digit, '_', inner
               blanks), operator / blanks / value / unit are selectors; the operator scan, index, split and strip run
               on the symbolic argument; the right-hand side reaches the two rhs patterns concretised (C regex engine).
 tov_table     the full product operator x blanks x value x *every supported unit* x tag catalogue through the real
               _parse_line (finite table, concrete decision).
 line_table    indentation x threshold x every instruction name x argument x comment through the real _parse_line
               (finite table, concrete decision).
"""
from symx import Violation
from symx.obligation import Obligation
from props.lang_common import regex_boundary, supported_units

NODE_KINDS = ["Watch", "Alarm", "Simulate"]
TAG_ALPHABET = "Ab1_ "
BLANKS = [(1, 1), (0, 0), (2, 1), (0, 2), (1, 0)]
NUMERIC = ["0", "1", "12.25", ".5", "5.", "-3", "+4", "1e3", "2.5E-2", "-0.5e+1"]
STRINGS = ["Open", "N/A", "Open 1", "a b  c", "x_1"]
SYM_RHS = [("1", "", None), ("-12.5", " ", "L/h"), ("5", "", "%"), ("Open 1", "", None)]


def _ops(kind):
    import openpectus.lang.model.ast as p
    return list({"Watch": p.WatchNode, "Alarm": p.AlarmNode, "Simulate": p.SimulateNode}[kind].operators)


def _same(a, b):
    """string equality by length and code points (CrossHair's == between differently represented symbolic strings is
    not reliable: a slice view never compares equal to a plain symbolic string)"""
    if a is None or b is None:
        return a is b
    if len(a) != len(b):
        return False
    for i in range(len(b)):
        if ord(a[i]) != ord(b[i]):
            return False
    return True


def _expect(c, tag, op, value, unit, numeric):
    """None or (what, detail) comparing the TagOperatorValue `c` with the parts the argument was built from."""
    if c is None:
        return ("missing", "no tag_operator_value")
    if not _same(c.tag_name, tag):
        return ("tag", "tag_name differs from the tag the argument was built from")
    if not _same(c.op, op):
        return ("operator", f"op {c.op!r}")
    if numeric:
        if not _same(c.tag_value, value):
            return ("value", f"tag_value {c.tag_value!r}")
        if c.tag_value_numeric is None or c.tag_value_numeric != float(value):
            return ("numeric-value", f"tag_value_numeric {c.tag_value_numeric!r}")
        if not _same(c.tag_unit, unit):
            return ("unit", f"tag_unit {c.tag_unit!r}")
    else:
        if not _same(c.tag_value, value):
            return ("string-value", f"tag_value {c.tag_value!r}")
        if c.tag_unit is not None:
            return ("string-unit", f"tag_unit {c.tag_unit!r}")
    if c.error:
        return ("error-flag", "condition marked as error")
    return None


# ---------------------------------------------------------------------------------------------------------------------
# (a) symbolic tag name
# ---------------------------------------------------------------------------------------------------------------------
def harness_tov(sym):
    import openpectus.lang.model.ast as p
    from openpectus.lang.model.parser import PcodeParser
    kind, op = sym.shard["kind"], sym.shard["op"]
    tag = sym.str("tag", sym.shard["max_len"], TAG_ALPHABET)
    sym.assume(len(tag) >= 1)
    sym.assume(tag[0] != " ")
    sym.assume(tag[len(tag) - 1] != " ")
    b0, b1 = sym.choice("blanks", BLANKS[:sym.shard.get("blanks", len(BLANKS))])
    value, usep, unit = sym.choice("rhs", SYM_RHS)
    numeric = value != "Open 1"
    lead = sym.choice("lead", ["", " "])
    rhs = value + usep + (unit or "")
    arg = lead + tag + " " * b0 + op + " " * b1 + rhs
    with sym.concrete():
        node = {"Watch": p.WatchNode, "Alarm": p.AlarmNode, "Simulate": p.SimulateNode}[kind](position=p.Position(0, 0))
    start = len(kind) + 2
    node.arguments_part = arg
    node.arguments = arg.strip()
    node.arguments_range = p.Range(p.Position(0, start), p.Position(0, start + len(arg)))
    node.stripped_arguments_range = p.Range(p.Position(0, start + len(lead)), p.Position(0, start + len(arg)))
    with regex_boundary(sym):
        try:
            PcodeParser._parse_tag_operator_value(node)
        except Exception as e:  # noqa
            sym.check(False, f"raises|_parse_tag_operator_value|{type(e).__name__}|kind={kind}|op={op}", repr(e))
            return
    r = _expect(node.tag_operator_value, tag, op, value, unit, numeric)
    if r is not None:
        sym.check(False, f"decompose|{r[0]}|kind={kind}|op={op}",
                  f"{kind}: <tag>{' ' * b0}{op}{' ' * b1}{rhs}: {r[1]} (tag: see witness)")
    sym.reach()


def _tov_shards(tier):
    n = 2 if tier == "quick" else 4
    # quick: Alarm shares class NodeWithCondition (operator list and code path) with Watch and is left to the thorough tier
    kinds = NODE_KINDS if tier != "quick" else ["Watch", "Simulate"]
    return [{"kind": k, "op": op, "max_len": n, "blanks": 3 if tier == "quick" else 5} for k in kinds for op in _ops(k)]


# ---------------------------------------------------------------------------------------------------------------------
# (a') full product, concrete
# ---------------------------------------------------------------------------------------------------------------------
TAGS = ["A", "Run Time", "FT 01 x", "a_b", "Block  Time"]


def _tov_row(kind, tag, op, b0, b1, value, unit, usep):
    from openpectus.lang.model.parser import PcodeParser
    numeric = value in NUMERIC
    line = f"{kind}: {tag}{' ' * b0}{op}{' ' * b1}{value}{usep}{unit or ''}"
    node = PcodeParser()._parse_line(line, 0)
    if type(node).__name__ != kind + "Node":
        return ("node-type", f"{line!r}: {type(node).__name__}")
    r = _expect(node.tag_operator_value, tag, op, value, unit, numeric)
    if r is not None:
        return (r[0], f"{line!r}: {r[1]}")
    return None


def _tov_rows(tier):
    units = [None] + supported_units()
    blanks = BLANKS if tier != "quick" else BLANKS[:3]
    tags = TAGS if tier != "quick" else TAGS[:3]
    for kind in NODE_KINDS:
        for op in _ops(kind):
            for (b0, b1) in blanks:
                for tag in tags:
                    for value in NUMERIC:
                        for unit in units:
                            for usep in (("", " ") if unit else ("",)):
                                yield (kind, tag, op, b0, b1, value, unit, usep)
                    for value in STRINGS:
                        yield (kind, tag, op, b0, b1, value, None, "")


def _form(value):
    if value not in NUMERIC:
        return "text"
    if "e" in value.lower():
        return "exponent"
    return "decimal" if "." in value else "integer"


def _tov_sig(r, row):
    kind, tag, op, b0, b1, value, unit, usep = row
    return f"decompose|{r[0]}|unit={unit}" if unit else f"decompose|{r[0]}|form={_form(value)}"


def run_tov_table(shard, tier):
    rows, viol, seen = 0, [], {}
    for row in _tov_rows(tier):
        rows += 1
        r = _tov_row(*row)
        if r:
            sig = _tov_sig(r, row)
            seen[sig] = seen.get(sig, 0) + 1
            if seen[sig] <= 1:
                viol.append({"signature": sig, "detail": r[1], "witness": {"row": list(row)}})
    return {"table_rows": rows, "queries": 0, "unsat": 0, "sat": 0, "unknown": 0, "violations": viol[:40],
            "samples": [{"row": ["Watch", "Run Time", ">=", 1, 1, "12.25", "L/h", " "]}]}


def replay_tov_table(witness, shard):
    r = _tov_row(*witness["row"])
    if r:
        raise Violation(_tov_sig(r, witness["row"]), r[1])


# ---------------------------------------------------------------------------------------------------------------------
# (b) whole lines
# ---------------------------------------------------------------------------------------------------------------------
UOD_NAMES = ["Reset", "Open valve 2", "CmdWithArgs"]
THRESHOLDS = [None, "0", "1.5", "12.25"]
ARGUMENTS = [None, "A", "Run Time > 1 s", "a: b", "1.5 L/h", "x = 2", "A  B", "50 %", "FT01 >= 2.5E-2 L/min", "VA01+VA02", "3", "min"]
COMMENTS = [None, "", "c", "a # b", "x: y", "Mark: A", "50 % > 1"]
COMMENT_SEP = [" # ", "#", "  #"]


def _names():
    from openpectus.lang.model.parser import PcodeParser
    return sorted(PcodeParser().instruction_name_map.keys()) + UOD_NAMES


def _line_row(level, thr, name, arg, comment, csep):
    import openpectus.lang.model.ast as p
    from openpectus.lang.model.parser import PcodeParser
    parser = PcodeParser(uod_command_names=UOD_NAMES)
    line = " " * (4 * level) + (thr + " " if thr is not None else "") + name + (": " + arg if arg is not None else "") \
        + (csep + comment if comment is not None else "")
    node = parser._parse_line(line, 0)
    want_type = parser.instruction_name_map.get(name, p.UodCommandNode)
    if type(node) is not want_type:
        return ("node-type", f"{line!r}: {type(node).__name__}, expected {want_type.__name__}")
    if node.position.character != 4 * level or node.indent_error:
        return ("indentation", f"{line!r}: character {node.position.character} indent_error {node.indent_error}")
    if node.threshold_part != (thr or "") or node.threshold != (None if thr is None else float(thr)):
        return ("threshold", f"{line!r}: threshold_part {node.threshold_part!r} threshold {node.threshold!r}")
    if node.instruction_name != name:
        return ("instruction-name", f"{line!r}: {node.instruction_name!r}")
    if node.arguments != (arg or "").strip() or node.arguments_part.strip() != (arg or "").strip():
        return ("argument", f"{line!r}: arguments {node.arguments!r} arguments_part {node.arguments_part!r}")
    if bool(node.has_argument) != (arg is not None):
        return ("has-argument", f"{line!r}: has_argument {node.has_argument}")
    if bool(node.has_comment) != (comment is not None) or node.comment_part.strip() != (comment or "").strip():
        return ("comment", f"{line!r}: has_comment {node.has_comment} comment_part {node.comment_part!r}")
    if isinstance(node, p.NodeWithTagOperatorValue) and arg == "Run Time > 1 s" and isinstance(node, p.NodeWithCondition):
        r = _expect(node.tag_operator_value, "Run Time", ">", "1", "s", True)
        if r:
            return ("condition-" + r[0], f"{line!r}: {r[1]}")
    return None


def _line_rows(tier):
    names = _names()
    levels = range(4) if tier != "quick" else (0, 2)
    for level in levels:
        for thr in THRESHOLDS:
            for name in names:
                for arg in ARGUMENTS:
                    for comment in COMMENTS:
                        for csep in (COMMENT_SEP if comment is not None else ("",)):
                            yield (level, thr, name, arg, comment, csep)


def _line_sig(r, row):
    return f"line|{r[0]}|name={row[2]}"


def run_line_table(shard, tier):
    rows, viol, seen = 0, [], {}
    for row in _line_rows(tier):
        rows += 1
        r = _line_row(*row)
        if r:
            sig = _line_sig(r, row)
            seen[sig] = seen.get(sig, 0) + 1
            if seen[sig] <= 1:
                viol.append({"signature": sig, "detail": r[1], "witness": {"row": list(row)}})
    return {"table_rows": rows, "queries": 0, "unsat": 0, "sat": 0, "unknown": 0, "violations": viol[:40],
            "samples": [{"row": [1, "1.5", "Watch", "Run Time > 1 s", "c", " # "]}]}


def replay_line_table(witness, shard):
    r = _line_row(*witness["row"])
    if r:
        raise Violation(_line_sig(r, witness["row"]), r[1])


OBLIGATIONS = [
    Obligation(
        name="tov_symbolic", kind="crosshair", harness=harness_tov, shards=_tov_shards,
        cpu_budget={"quick": 100.0, "thorough": 900.0},
        encoded=["openpectus.lang.model.parser:PcodeParser._parse_tag_operator_value", "openpectus.lang.model.parser:count_leading_spaces",
                 "openpectus.lang.model.parser:count_trailing_spaces"],
        symbolic="the tag name (string over 'A','b','1','_',' ' without leading/trailing blank); selectors: blanks around the operator "
                 "(3 patterns quick / 5 thorough), leading blank of the argument, right-hand side (1 | -12.5 L/h | 5% | Open 1)",
        bounds={"quick": "tag name length 1..2; every operator of Watch (<=, >=, ==, !=, <, >, =) and Simulate (=)",
                "thorough": "tag name length 1..4; Watch, Alarm and Simulate with all their operators"},
        assumptions=["the node is set up as _parse_line does (arguments_part, arguments_range) and _parse_tag_operator_value is called directly",
                     "the right-hand side is concretised before the two rhs regular expressions run (C regex engine); the left-hand side never reaches a regex",
                     "documented tag language: no operator characters, '#' or ':' in tag names",
                     "CrossHair's list-of-code-points string model is trusted for in/index/split/strip; results are compared code point by code point",
                     "log statements removed at import"]),
    Obligation(
        name="tov_table", kind="finite", run=run_tov_table, replay=replay_tov_table, decides="table",
        encoded=["openpectus.lang.model.parser:PcodeParser._parse_line", "openpectus.lang.model.parser:PcodeParser._parse_tag_operator_value",
                 "openpectus.lang.exec.units:get_supported_units"],
        symbolic="none (finite product computed from the live operator lists and unit table)",
        bounds={"quick": "3 node kinds x their operators x 3 blank patterns x 3 tag names x (10 numeric forms x every supported unit x 0/1 blank + 5 texts)",
                "thorough": "same with 5 blank patterns and 5 tag names"},
        assumptions=["numeric forms and text values from a catalogue"]),
    Obligation(
        name="line_table", kind="finite", run=run_line_table, replay=replay_line_table, decides="table",
        encoded=["openpectus.lang.model.parser:PcodeParser._parse_line", "openpectus.lang.model.parser:PcodeParser._create_node",
                 "openpectus.lang.model.parser:PcodeParser._inspect_instruction_node_types"],
        symbolic="none (finite product; instruction names are the keys of the live instruction_name_map plus three UOD command names)",
        bounds={"quick": "2 indentation levels x 4 thresholds x all names x 12 arguments x (no comment + 6 comments x 3 separators)",
                "thorough": "4 indentation levels, otherwise the same"},
        assumptions=["a well formed line is indentation (multiple of four blanks) [threshold blank] name [': ' argument] [blanks '#' blanks comment]",
                     "argument and comment are compared modulo surrounding blanks"]),
]

MANIFEST = {
    "level": "model_checking",
    "text": "The operator scan / index / split / strip of the real _parse_tag_operator_value is executed symbolically (CrossHair/z3) with the tag name a symbolic string and operator, blanks and right-hand side as selectors; the decomposition over the full product operator x blanks x numeric form x every supported unit (live unit table), and of whole lines over indentation x threshold x every instruction name (live instruction_name_map) x argument x comment, is decided by exhaustive finite tables through the real _parse_line.",
    "note": "Trusted: CrossHair's list-of-code-points string model for in/index/split/strip (results compared code point by code point because its == between differently represented symbolic strings is unreliable), z3. The regular expressions always run on concrete text: obligations tov_table and line_table are bounded exhaustive tables (concrete decision), not solver results. Tag names longer than 2 (quick) / 4 (thorough) characters in the symbolic obligation and fragments outside the catalogues are outside the claim.",
    "technique": "symbolic execution of the real code (CrossHair + z3) with a symbolic string, counterexample replay; exhaustive finite tables over live catalogues",
}
