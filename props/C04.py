"""C04  Watch runs once after its condition holds; Alarm re-arms; neither runs after cancel / block end.

Real code: the whole engine; subject = PInterpreter.visit_WatchNode / visit_AlarmNode / _try_activate_node /
_evaluate_condition / _abort_block_interrupts / _register_interrupt, NodeWithCondition (cancellable/forcible),
CommandManager.cancel_instruction / force_instruction, Tracking.mark_cancelled / mark_forced.

Obligation `conditions`: the ticks at which the condition tag switches 0->1->0 are solver variables (any
relative timing of condition, main flow, End block).  Obligation `cancel_force`: one cancel or force request at
a solver-chosen tick aimed at a solver-chosen item of the run log *as reported at that tick*, for three
concrete condition trajectories (never true / true from the start / true from tick 6).
"""
from symx.obligation import Obligation
from props.interp_common import TEMPLATES, run_scenario, check_trace
from props.C02 import TICKS

COND_TEMPLATES = [t for t in TEMPLATES if "In1" in TEMPLATES[t]]
IN1_SHAPES = {"never": (0, 0), "always": (0, 99), "from6": (6, 99), "pulse": (6, 8)}


def harness_conditions(sym):
    t = sym.shard["template"]
    n = sym.shard.get("n", TICKS[t])
    sc = run_scenario(sym, t, n, collect_runlog=False)
    sym.check(not sc.tick_errors, "C04|tick-raised", f"Engine.tick raised {sc.tick_errors[:1]}")
    check_trace(sym, sc, TEMPLATES[t], {"C04"})


def harness_cancel_force(sym):
    t = sym.shard["template"]
    n = sym.shard.get("n", TICKS[t])
    sc = run_scenario(sym, t, n, event_kinds=("cancel", "force"), collect_runlog=False)
    # a request may legitimately be refused with an exception by the API; only Engine.tick must not raise
    sym.check(not sc.tick_errors, "C04|tick-raised-after-request", f"Engine.tick raised {sc.tick_errors[:1]} after {sc.events}")
    check_trace(sym, sc, TEMPLATES[t], {"C04"})


def _shards_c(tier):
    if tier == "quick":
        return [{"template": t, "n": min(TICKS[t], 14)} for t in COND_TEMPLATES]
    return [{"template": t, "n": TICKS[t] + 4} for t in COND_TEMPLATES]


def _shards_e(tier):
    tpl = ["watch", "watch_block", "alarm", "alarm_block"] if tier == "quick" else COND_TEMPLATES
    shapes = ["never", "from6"] if tier == "quick" else list(IN1_SHAPES)
    return [{"template": t, "n": min(TICKS[t], 14) if tier == "quick" else TICKS[t], "in1": list(IN1_SHAPES[s])} for t in tpl for s in shapes]


_ENC = ["openpectus.lang.exec.pinterpreter:PInterpreter.visit_WatchNode", "openpectus.lang.exec.pinterpreter:PInterpreter.visit_AlarmNode",
        "openpectus.lang.exec.pinterpreter:PInterpreter._try_activate_node", "openpectus.lang.exec.pinterpreter:PInterpreter._evaluate_condition",
        "openpectus.lang.exec.pinterpreter:PInterpreter._abort_block_interrupts", "openpectus.lang.exec.pinterpreter:PInterpreter._register_interrupt",
        "openpectus.engine.command_manager:CommandManager.cancel_instruction", "openpectus.engine.command_manager:CommandManager.force_instruction",
        "openpectus.lang.exec.tracking:Tracking.mark_cancelled", "openpectus.lang.exec.tracking:Tracking.mark_forced"]

OBLIGATIONS = [
    Obligation(name="conditions", kind="crosshair", harness=harness_conditions, shards=_shards_c,
               cpu_budget={"quick": 300.0, "thorough": 2400.0}, encoded=_ENC,
               symbolic="ticks at which the condition tag In1 switches on and off (two ints over the run length); UOD durations",
               bounds={"quick": "7 templates with Watch/Alarm (root, in block, nested watch-in-alarm, blocks started from watch/alarm), <=14 ticks",
                       "thorough": "same templates, run length +4"},
               assumptions=["condition tag follows one 0->1->0 step; the condition itself is evaluated by the real _evaluate_condition/compare_values on concrete values",
                            "tick interval fixed at 0.1 s; an effect whose visit began in the tick in which the block was ended may land one tick later",
                            "fake hardware; log statements removed at import"]),
    Obligation(name="cancel_force", kind="crosshair", harness=harness_cancel_force, shards=_shards_e,
               cpu_budget={"quick": 300.0, "thorough": 2400.0}, encoded=_ENC,
               symbolic="request kind (none/cancel/force), request tick, index of the targeted run-log item among those reported at that tick (plus an unknown id)",
               bounds={"quick": "4 templates x 2 condition trajectories, one request, <=14 ticks", "thorough": "7 templates x 4 trajectories, one request"},
               assumptions=["requests are issued between ticks", "at most one request per run", "fake hardware; log statements removed at import"]),
]

MANIFEST = {
    "level": "model_checking",
    "text": "Bounded exhaustive symbolic execution (CrossHair/z3) of the real interpreter and command manager: condition switch ticks, request tick and targeted run-log item are solver variables; Watch/Alarm body effects are checked against the condition trajectory, accepted cancel/force requests and block ends.",
    "note": "Trusted: CrossHair/z3, reference structure in props/interp_common.py; template catalogue, single-step condition trajectory, one request per run.",
    "technique": "symbolic execution of the real interpreter (CrossHair + z3), bounded exhaustive over condition timings and cancel/force requests, counterexample replay",
}
