"""C04  Watch runs once after its condition holds; Alarm re-arms; neither runs after cancel / block end.

Real code: the whole engine; subject = PInterpreter.visit_WatchNode / visit_AlarmNode / _try_activate_node /
_evaluate_condition / _abort_block_interrupts / _register_interrupt, NodeWithCondition (cancellable/forcible),
CommandManager.cancel_instruction / force_instruction, Tracking.mark_cancelled / mark_forced.

Obligation `conditions`: the ticks at which the condition tag switches 0->1->0 are solver variables (any
relative timing of condition, main flow, End block).  Obligation `cancel_force`: one cancel or force request at
a solver-chosen tick aimed at a solver-chosen item of the run log *as reported at that tick*, for three
concrete condition trajectories (never true / true from the start / true from tick 6).
"""
from symx.obligation import Obligation
from props.interp_common import TEMPLATES, run_scenario, check_trace
from props.C02 import TICKS

COND_TEMPLATES = [t for t in TEMPLATES if "In1" in TEMPLATES[t]]
IN1_SHAPES = {"never": (0, 0), "always": (0, 99), "from6": (6, 99), "pulse": (6, 8)}


def harness_conditions(sym):
    t = sym.shard["template"]
    n = sym.shard.get("n", TICKS[t])
    sc = run_scenario(sym, t, n, collect_runlog=False)
    sym.check(not sc.tick_errors, "C04|tick-raised", f"Engine.tick raised {sc.tick_errors[:1]}")
    check_trace(sym, sc, TEMPLATES[t], {"C04"})


def harness_cancel_force(sym):
    t = sym.shard["template"]
    n = sym.shard.get("n", TICKS[t])
    sc = run_scenario(sym, t, n, event_kinds=("cancel", "force"), collect_runlog=False)
    # a request may legitimately be refused with an exception by the API; only Engine.tick must not raise
    sym.check(not sc.tick_errors, "C04|tick-raised-after-request", f"Engine.tick raised {sc.tick_errors[:1]} after {sc.events}")
    check_trace(sym, sc, TEMPLATES[t], {"C04"})


def harness_generated(sym):
    """Methods assembled by solver selectors (props/gen_methods.py) with one Watch or Alarm; the condition becomes true at a
    solver-chosen tick and stays true.  Tolerant per-flow oracle (no run without condition, not after the block ended, a Watch
    not twice) + liveness at the root: the Watch body runs, the Alarm body runs again."""
    from props.gen_methods import generate, Infeasible
    from props.interp_common import structure
    sh = sym.shard
    try:
        pc = generate(sym, sh["slots"], sh["body"], True, False, sh.get("first"), sh.get("blocks", 2), tuple(sh.get("pre", ())), alarm=True)
    except Infeasible:
        sym.assume(False)
    if "In1" not in pc:
        sym.assume(False)            # no Watch / Alarm in this method: not this property's business
    n = 2 * pc.count("\n") + 3 * pc.count("Wait:") + 22
    sc = run_scenario(sym, "generated", n, pcode=pc, collect_runlog=False)
    sym.check(not sc.tick_errors, "C04|generated|tick-raised", lambda: f"{pc!r}: Engine.tick raised {sc.tick_errors[:1]}")
    check_trace(sym, sc, pc, {"C04"})
    root, lines = structure(pc)
    w = [ln for ln in lines if ln.name in ("Watch", "Alarm")][0]
    marks = sc.marks_by_tick[-1] if sc.marks_by_tick else []
    up = next((i for i, v in enumerate(sc.in1) if v == 1), None)
    body_mark = [c.arg for c in w.children if c.name == "Mark"] or [c2.arg for c in w.children for c2 in c.children if c2.name == "Mark"]
    if w.parent is root and "END" in marks and up is not None and body_mark:
        end_tick = next(i for i, m in enumerate(sc.marks_by_tick) if "END" in m)
        since = max(up, end_tick)     # registered (the main flow passed it) and the condition true
        cnt = marks.count(body_mark[0])
        if since + 10 <= n:
            sym.check(cnt >= 1, f"C04|generated|{w.name.lower()}-never-ran", lambda: f"{pc!r}: In1 = 1 from tick {up}, method finished at tick {end_tick}, run of {n} ticks: {body_mark[0]} never marked; marks {marks}")
        if w.name == "Alarm" and since + 18 <= n:
            sym.check(cnt >= 2, "C04|generated|alarm-did-not-rearm", lambda: f"{pc!r}: In1 = 1 from tick {up} on, run of {n} ticks: Alarm body ran {cnt} times; marks {marks}")
    if w.name == "Watch" and body_mark:
        sym.check(marks.count(body_mark[0]) <= 1, "C04|generated|watch-ran-twice", lambda: f"{pc!r}: marks {marks}")


def _gen_shards(tier):
    cfgs = []
    if tier == "quick":
        cfgs += [{"slots": 2, "body": 2, "blocks": 1, "first": "watch", "in1_mode": "up"}]
    else:
        cfgs += [{"slots": 2, "body": 2, "blocks": 2, "first": "watch", "in1_mode": "up"}]
        cfgs += [{"slots": 2, "body": 2, "blocks": 1, "first": "block", "in1_mode": "up"}]
    return [dict(c, pre=[p0, p1]) for c in cfgs for p0 in range(7) for p1 in range(7)]


def _shards_c(tier):
    if tier == "quick":
        return [{"template": t, "n": min(TICKS[t], 14)} for t in COND_TEMPLATES]
    return [{"template": t, "n": TICKS[t] + 4} for t in COND_TEMPLATES]


def _shards_e(tier):
    tpl = ["watch", "watch_block", "alarm", "alarm_block"] if tier == "quick" else COND_TEMPLATES
    shapes = ["never", "from6"] if tier == "quick" else list(IN1_SHAPES)
    return [{"template": t, "n": min(TICKS[t], 14) if tier == "quick" else TICKS[t], "in1": list(IN1_SHAPES[s])} for t in tpl for s in shapes]


_ENC = ["openpectus.lang.exec.pinterpreter:PInterpreter.visit_WatchNode", "openpectus.lang.exec.pinterpreter:PInterpreter.visit_AlarmNode",
        "openpectus.lang.exec.pinterpreter:PInterpreter._try_activate_node", "openpectus.lang.exec.pinterpreter:PInterpreter._evaluate_condition",
        "openpectus.lang.exec.pinterpreter:PInterpreter._abort_block_interrupts", "openpectus.lang.exec.pinterpreter:PInterpreter._register_interrupt",
        "openpectus.engine.command_manager:CommandManager.cancel_instruction", "openpectus.engine.command_manager:CommandManager.force_instruction",
        "openpectus.lang.exec.tracking:Tracking.mark_cancelled", "openpectus.lang.exec.tracking:Tracking.mark_forced"]

_GENERATED = Obligation(
    name="generated_methods", kind="crosshair", harness=harness_generated, shards=_gen_shards, cpu_budget={"quick": 400.0, "thorough": 3000.0}, encoded=_ENC[:6],
    symbolic="the kind of every item of the method, Watch or Alarm, the shape of its body (selectors); the tick at which the condition becomes true (it stays true)",
    bounds={"quick": "first item the Watch / Alarm, 2 top-level items, at most one block", "thorough": "Watch / Alarm first (at most 2 blocks) or inside / behind a first Block (one block)"},
    assumptions=["liveness is judged for a Watch / Alarm at the root only (its scope never ends): body ran once within 10 ticks, the Alarm body twice within 18 ticks, counted from the later of 'condition true' and 'method finished'",
                 "tick interval fixed; fake hardware; log statements removed at import"])

OBLIGATIONS = [_GENERATED,
    Obligation(name="conditions", kind="crosshair", harness=harness_conditions, shards=_shards_c,
               cpu_budget={"quick": 300.0, "thorough": 2400.0}, encoded=_ENC,
               symbolic="ticks at which the condition tag In1 switches on and off (two ints over the run length); UOD durations",
               bounds={"quick": "7 templates with Watch/Alarm (root, in block, nested watch-in-alarm, blocks started from watch/alarm), <=14 ticks",
                       "thorough": "same templates, run length +4"},
               assumptions=["condition tag follows one 0->1->0 step; the condition itself is evaluated by the real _evaluate_condition/compare_values on concrete values",
                            "tick interval fixed at 0.1 s; an effect whose visit began in the tick in which the block was ended may land one tick later",
                            "fake hardware; log statements removed at import"]),
    Obligation(name="cancel_force", kind="crosshair", harness=harness_cancel_force, shards=_shards_e,
               cpu_budget={"quick": 300.0, "thorough": 2400.0}, encoded=_ENC,
               symbolic="request kind (none/cancel/force), request tick, index of the targeted run-log item among those reported at that tick (plus an unknown id)",
               bounds={"quick": "4 templates x 2 condition trajectories, one request, <=14 ticks", "thorough": "7 templates x 4 trajectories, one request"},
               assumptions=["requests are issued between ticks", "at most one request per run", "fake hardware; log statements removed at import"]),
]

MANIFEST = {
    "level": "model_checking",
    "text": "Bounded exhaustive symbolic execution (CrossHair/z3) of the real interpreter and command manager: condition switch ticks, request tick and targeted run-log item are solver variables; Watch/Alarm body effects are checked against the condition trajectory, accepted cancel/force requests and block ends.",
    "note": "Trusted: CrossHair/z3, reference structure in props/interp_common.py; template catalogue, single-step condition trajectory, one request per run.",
    "technique": "symbolic execution of the real interpreter (CrossHair + z3), bounded exhaustive over condition timings and cancel/force requests, counterexample replay",
}
