"""C28  A run survives engine reconnects and aggregator restarts.

Real code: AggregatorMessageHandlers.handle_RegisterEngineMsg / handle_EngineDisconnected / handle_RunStartedMsg /
handle_RunStoppedMsg / handle_TagsUpdatedMsg / handle_UodInfoMsg path (uod_info_changed), FromEngine.register_engine_data /
_try_restore_reconnected_engine_data / engine_disconnected / run_started / run_stopped / tag_values_changed /
_persist_tag_values, Aggregator.shutdown, and the repositories' store methods over the in-memory session.
An aggregator restart is Aggregator.shutdown() followed by a *new* Aggregator + AggregatorMessageHandlers over the same
in-memory database (graceful restart, as AggregatorServer.stop does it; the engine connection is gone afterwards).

Solver variables: the history (per step a selector over the events enabled for a well-behaved engine: RunStarted of a
fresh run id / RunStopped of the active run, a TagsUpdatedMsg for the active run, engine disconnect, re-registration,
aggregator restart while the engine is connected or not), the tick time (real) and value (int) of every tag update, the
data-log interval (positive real).

Oracle (from the statement):
  1  whenever the engine is connected and has an active run r, the aggregator's run for that engine is r;
  2  a tag update for r that arrives after a reconnect/restart and cannot be withheld by the data-log throttle (nothing
     stored yet for r, or its tick time is more than one interval after everything stored for r) is stored in r's plot log,
     and no value of r is stored in another run's plot log;
  3  a run has never more than one recent-run record, and exactly one once its RunStopped was delivered.
"""
from symx.obligation import Obligation
from props.agg_common import aggregator_world, ASSUMPTIONS_DB, ASSUMPTION_DATETIME

RUNS = ["r1", "r2", "r3"]
T_MAX = 10_000_000_000


def _enabled(online, cur, next_run):
    if online:
        ev = ["tags", "disconnect", "restart"]
        if cur is None:
            if next_run < len(RUNS):
                ev.insert(0, "start")
        else:
            ev.insert(0, "stop")
        return ev
    return ["register", "restart"]


def harness(sym):
    n = sym.shard.get("n", 5)
    first = sym.shard.get("first", [])
    with aggregator_world(sym) as w:
        interval = sym.real("interval", 0, None, lo_strict=True)
        w.register(interval=interval)
        online, cur, next_run = True, None, 0     # engine side truth
        stopped = []                              # runs whose RunStopped was delivered
        outage = None                             # kind of the last outage since the active run was last seen connected
        serial = 0
        seen_rows = 0
        trace = []

        counts = {r: 0 for r in RUNS}

        def check_records(where):
            for r in RUNS:
                nrr = len(w.recent_runs(r))
                if nrr != counts[r]:      # reported at the event that creates the surplus record
                    sym.check(nrr <= 1, f"recent-runs>1|{where}", f"{trace}: run {r} has {nrr} recent-run records")
                    counts[r] = nrr
                if r in stopped:
                    sym.check(nrr >= 1, f"run-not-stored|{where}", f"{trace}: run {r} was stopped but has no recent-run record")
            sym.reach()

        def check_same_run(where):
            if online and cur is not None:
                ed = w.engine_data()
                ok = ed is not None and ed.has_run() and ed.run_data.run_id == cur
                sym.check(ok, f"run-not-continued|{where}|outage={outage}",
                          f"{trace}: engine is connected with active run {cur}, aggregator has "
                          f"{'no engine data' if ed is None else (ed.run_data.run_id if ed.has_run() else 'no run')}")

        for i in range(n):
            options = _enabled(online, cur, next_run)
            if i < len(first):
                if first[i] not in options:
                    return
                ev = first[i]
            else:
                ev = options[sym.index(f"ev{i}", len(options))]
            trace.append(ev)
            if ev == "start":
                cur = RUNS[next_run]
                next_run += 1
                outage = None
                w.run_started(cur)
            elif ev == "stop":
                w.run_stopped(cur)
                stopped.append(cur)
                cur = None
                outage = None
            elif ev == "tags":
                t = sym.real(f"t{i}", 0, T_MAX)
                v = sym.int(f"v{i}", 1000 * serial, 1000 * serial + 999)
                serial += 1
                must_store = False
                if cur is not None:
                    must_store = True
                    for plot_log, name, row in w.entry_values():
                        if plot_log is not None and plot_log.run_id == cur:
                            if not (t - row.tick_time > interval):
                                must_store = False
                                break
                w.tags(cur, [w.tag_value("A", t, v)])
                rows = w.entry_values(seen_rows)
                seen_rows += len(rows)
                found = False
                for plot_log, name, row in rows:
                    sym.check(cur is not None and plot_log is not None and plot_log.run_id == cur,
                              f"value-in-wrong-plot-log|outage={outage}", f"{trace}: value reported for run {cur} stored in plot log of "
                              f"{plot_log.run_id if plot_log is not None else None}")
                    if name == "A" and row.value_int == v:
                        found = True
                if must_store:
                    sym.check(found, f"tag-data-not-recorded|outage={outage}",
                              f"{trace}: tag update for run {cur} (not withheld by the throttle) was not stored in the run's plot log")
            elif ev == "disconnect":
                w.disconnect()
                online = False
                if cur is not None:
                    outage = "disconnect"
            elif ev == "register":
                reply = w.register(interval=interval)
                sym.check(reply.success, "registration-refused", f"{trace}: re-registration refused")
                online = True
            else:
                if cur is not None:
                    if online:
                        outage = "restart-connected"
                    elif not (outage or "").endswith("+restart"):
                        outage = (outage or "") + "+restart"
                w.restart_aggregator()
                online = False
            check_same_run(ev)
            check_records(ev)
        sym.note("trace", trace)


def _prefixes(depth):
    out = []

    def rec(prefix, online, cur, next_run):
        if len(prefix) == depth:
            out.append(prefix)
            return
        for ev in _enabled(online, cur, next_run):
            o, c, nr = online, cur, next_run
            if ev == "start":
                c, nr = RUNS[next_run], next_run + 1
            elif ev == "stop":
                c = None
            elif ev in ("disconnect", "restart"):
                o = False
            elif ev == "register":
                o = True
            rec(prefix + [ev], o, c, nr)
    rec([], True, None, 0)
    return out


def _shards(tier):
    if tier == "quick":
        # + longer histories behind a run that was interrupted by an outage and then stopped
        return [{"n": 6, "first": p} for p in _prefixes(2)] + [{"n": 8, "first": ["start", o, "register", "stop"]} for o in ("disconnect", "restart")]
    return [{"n": 8, "first": p} for p in _prefixes(4)]


OBLIGATIONS = [Obligation(
    name="run_continuity", kind="crosshair", harness=harness, shards=_shards,
    cpu_budget={"quick": 150.0, "thorough": 1500.0},
    encoded=["openpectus.aggregator.aggregator_message_handlers:AggregatorMessageHandlers.handle_RegisterEngineMsg",
             "openpectus.aggregator.aggregator:FromEngine.register_engine_data",
             "openpectus.aggregator.aggregator:FromEngine._try_restore_reconnected_engine_data",
             "openpectus.aggregator.aggregator:FromEngine.engine_disconnected",
             "openpectus.aggregator.aggregator:FromEngine.run_started",
             "openpectus.aggregator.aggregator:FromEngine.run_stopped",
             "openpectus.aggregator.aggregator:FromEngine.tag_values_changed",
             "openpectus.aggregator.aggregator:FromEngine._persist_tag_values",
             "openpectus.aggregator.aggregator:FromEngine.uod_info_changed",
             "openpectus.aggregator.aggregator:Aggregator.shutdown",
             "openpectus.aggregator.data.repository:RecentEngineRepository.store_recent_engine",
             "openpectus.aggregator.data.repository:RecentRunRepository.store_recent_run",
             "openpectus.aggregator.data.repository:PlotLogRepository.create_plot_log",
             "openpectus.aggregator.data.repository:PlotLogRepository.store_tag_values"],
    symbolic="the history (selector per step over RunStarted/RunStopped, TagsUpdatedMsg, engine disconnect, re-registration, aggregator restart), "
             "tick time (real) and int value of every tag update, the data-log interval (positive real)",
    bounds={"quick": "histories of 6 events after the initial registration, and of 8 events behind the prefix start/outage/register/stop; one engine, up to 3 consecutive runs",
            "thorough": "histories of 8 events; one engine, up to 3 consecutive runs"},
    assumptions=ASSUMPTIONS_DB + [
        "aggregator restart = graceful stop (Aggregator.shutdown(), as AggregatorServer.stop does) followed by a new Aggregator over the same "
        "in-memory database; a crash without shutdown is not modelled",
        "well-behaved engine: fresh run id per run, RunStopped only for the active run, tag updates carry the active run id; messages are "
        "delivered only while registered and connected (messages buffered by the engine while it is offline arrive, in order, after the "
        "re-registration, which is the same aggregator-side history)",
        "every registration is followed by the engine's UodInfoMsg (reading A, the data-log interval)",
        "floats modelled as reals (CrossHair RealBasedSymbolicFloat); counterexamples are replayed with binary64",
        "tag values are ints from pairwise disjoint ranges so that a stored value identifies its report",
        ASSUMPTION_DATETIME,
    ],
)]

MANIFEST = {
    "level": "model_checking",
    "text": "Bounded exhaustive symbolic execution (CrossHair/z3) of the real registration, disconnect, run and tag-update handlers, FromEngine._try_restore_reconnected_engine_data, Aggregator.shutdown and the repositories' real store methods over an in-memory session; an aggregator restart is a new Aggregator over the same in-memory database. Every history within the bound of run start/stop, tag updates (solver-real tick times, symbolic values, symbolic data-log interval), engine disconnect, re-registration and aggregator restart (engine connected or not) is covered path by path; after every event the aggregator's run id is compared with the engine's, tag rows with the run's plot log, recent-run rows per run with exactly-once.",
    "note": "Trusted: CrossHair's int/real models (floats as reals; counterexamples replayed with binary64), z3, the reference bookkeeping in props/C28.py. SQLAlchemy session / SQLite replaced by an in-memory row store, ORM rows by plain records, publishers/asyncio.create_task no-ops, models.datetime stubbed. Restart is graceful (shutdown runs); a crash without shutdown, several engines, longer histories and misbehaving engines (duplicates: see C30) are outside the claim.",
    "technique": "symbolic execution of the real code (CrossHair + z3), bounded exhaustive over event histories with symbolic times, counterexample replay",
}
