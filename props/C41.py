"""C41  Macros run their latest definition once per call and never recurse.

Real code: the whole engine; subject = PInterpreter.visit_MacroNode / visit_CallMacroNode / _register_macro,
MacroNode.macro_calling_macro, MethodManager._validate_liveedit_method (started macro validation), Node.matches_source.

Solver variables: duration of the UOD command inside a macro body, the tick at which the user edits or removes a
macro that has (or has not yet) started, which edit.
"""
from symx.obligation import Obligation
from props.engine_common import engine_rig

# template -> (pcode, expected Mark trace when the run completes, or None when the run must stop with a method error,
#              marks that may appear at most the given number of times)
TEMPLATES = {
    "redefine": ("Macro: X\n    Mark: X1\nCall macro: X\nMacro: X\n    Mark: X2\nCall macro: X\nMark: END\n", ["X1", "X2", "END"]),
    "nested": ("Macro: A\n    Mark: A1\n    Call macro: B\n    Mark: A2\nMacro: B\n    Mark: B1\nCall macro: A\nMark: END\n", ["A1", "B1", "A2", "END"]),
    "multi": ("Macro: X\n    Mark: X1\n    CmdA\n    Mark: X2\nMark: M1\nCall macro: X\nMark: M2\nCall macro: X\nMark: M3\nCall macro: X\nMark: END\n",
              ["M1", "X1", "X2", "M2", "X1", "X2", "M3", "X1", "X2", "END"]),
    "self": ("Macro: R\n    Mark: R1\n    Call macro: R\nMark: M1\nCall macro: R\nMark: AFTER\n", None),
    "mutual": ("Macro: P\n    Mark: P1\n    Call macro: Q\nMacro: Q\n    Mark: Q1\n    Call macro: P\nMark: M1\nCall macro: P\nMark: AFTER\n", None),
    "indirect3": ("Macro: A\n    Call macro: B\nMacro: B\n    Call macro: C\nMacro: C\n    Mark: C1\n    Call macro: A\nCall macro: A\nMark: AFTER\n", None),
}
N = {"redefine": 22, "nested": 24, "multi": 44, "self": 16, "mutual": 18, "indirect3": 18}


def harness_run(sym):
    t = sym.shard["template"]
    pc, expect = TEMPLATES[t]
    dur = sym.int("dur_CmdA", 1, 4) if "CmdA" in pc else 1
    with engine_rig(sym, pc, durations={"CmdA": dur}) as rig:
        e = rig.engine
        rig.user("Start")
        for i in range(N[t] + (2 * 4 if "CmdA" in pc else 0)):
            rig.tick(0.1)
            sym.check(not rig.tick_errors, "tick-raised", lambda: f"{t}: Engine.tick raised {rig.tick_errors[:1]}")
        marks = rig.marks()
        if expect is not None:
            sym.check(not e.has_error_state(), f"unexpected-method-error|template={t}",
                      lambda: f"{t}: method error {e.get_error_state_exception()!r}; marks {marks}")
            sym.check(marks == expect, f"macro-trace|template={t}", lambda: f"{t}: marks {marks}, expected {expect}")
        else:
            # a call that closes a cycle fails (method error) and no body line runs twice
            sym.check(e.has_error_state(), f"recursive-call-did-not-fail|template={t}", lambda: f"{t}: no method error; marks {marks}")
            sym.check("AFTER" not in marks, f"ran-past-recursive-call|template={t}", lambda: f"{t}: marks {marks}")
            for m in set(marks):
                sym.check(marks.count(m) <= 1, f"macro-body-line-ran-twice|template={t}", lambda: f"{t}: marks {marks}")


# ---- generated macro programs -------------------------------------------------------------------------------
def _gen_program(sym, names, redefine):
    """Solver-chosen bodies (2 items each: a Mark or a call of any macro) for the macros `names`, two solver-chosen top-level calls."""
    items = ["mark"] + names
    bodies = {}
    for m in names:
        bodies[m] = []
        for k in range(2):
            it = items[sym.index(f"body_{m}{k}", len(items))]
            bodies[m].append(("mark", f"{m}{k}") if it == "mark" else ("call", it))
    fixed = sym.shard.get("calls")
    calls = [names[fixed[j]] if fixed is not None else names[sym.index(f"main_call{j}", len(names))] for j in range(2)]
    lines = []
    for m in names:
        lines.append(f"Macro: {m}")
        lines += [f"    Mark: {x}" if kind == "mark" else f"    Call macro: {x}" for kind, x in bodies[m]]
    lines += ["Mark: M1", f"Call macro: {calls[0]}"]
    top = [("define", m, bodies[m]) for m in names] + [("mark", "M1"), ("call", calls[0])]
    if redefine:
        lines += [f"Macro: {names[0]}", f"    Mark: {names[0]}9"]
        top.append(("define", names[0], [("mark", f"{names[0]}9")]))
    lines += ["Mark: M2", f"Call macro: {calls[1]}", "Mark: END"]
    top += [("mark", "M2"), ("call", calls[1]), ("mark", "END")]
    return "\n".join(lines) + "\n", top


def _reference(top):
    """(marks, failing) by the statement: a call runs the latest body once, in order; a call of a macro that is already
    running (directly or indirectly) fails.  `guaranteed` = marks before the top-level call inside which the failure lies."""
    table, marks, guaranteed = {}, [], 0

    class Cycle(Exception):
        pass

    def call(m, stack):
        if m in stack:
            raise Cycle()
        for kind, x in table[m]:
            if kind == "mark":
                marks.append(x)
            else:
                call(x, stack + [m])
    for it in top:
        if it[0] == "define":
            table[it[1]] = it[2]
        elif it[0] == "mark":
            marks.append(it[1])
        else:
            guaranteed = len(marks)
            try:
                call(it[1], [])
            except Cycle:
                return marks, True, guaranteed
    return marks, False, len(marks)


def harness_generated(sym):
    names = sym.shard["names"]
    pc, top = _gen_program(sym, names, sym.shard.get("redefine", False))
    want, fails, guaranteed = _reference(top)
    with engine_rig(sym, pc) as rig:
        e = rig.engine
        rig.user("Start")
        quiet = 0
        for i in range(2 * (2 * len(want) + 12)):
            rig.tick(0.1)
            sym.check(not rig.tick_errors, "tick-raised|generated", lambda: f"{pc!r}: Engine.tick raised {rig.tick_errors[:1]}")
            if e.has_error_state() or "END" in rig.marks():
                quiet += 1
                if quiet > 3:
                    break
        marks = rig.marks()
        if not fails:
            sym.check(not e.has_error_state(), "unexpected-method-error|generated", lambda: f"{pc!r}: method error {e.get_error_state_exception()!r}; marks {marks}")
            sym.check(marks == want, "macro-trace|generated", lambda: f"{pc!r}: marks {marks}, expected {want}")
        else:
            # the statement does not say which call of the cycle fails: the outermost (static detection) up to the one closing the cycle
            sym.check(e.has_error_state(), "recursive-call-did-not-fail|generated", lambda: f"{pc!r}: no method error; marks {marks}")
            sym.check(marks == want[:len(marks)] and len(marks) >= guaranteed, "recursive-call-trace|generated",
                      lambda: f"{pc!r}: marks {marks}; expected a prefix (at least {guaranteed} long) of {want}")


def _shards_generated(tier):
    if tier == "quick":
        return [{"names": ["A", "B"], "redefine": r} for r in (False, True)]
    # 3 macros: one shard per pair of top-level calls (4096 call graphs each)
    return ([{"names": ["A", "B", "C"], "redefine": r, "calls": [i, j]} for r in (False, True) for i in range(3) for j in range(3)]
            + [{"names": ["A", "B"], "redefine": r} for r in (False, True)])


EDIT_PCODE = "Macro: X\n    Mark: X1\n    Wait: 0.5s\n    Mark: X2\nMark: M1\nCall macro: X\nMark: M2\nCall macro: X\nMark: END\n"
EDITS = {
    "change_body": lambda lines: [ln if ln.strip() != "Mark: X2" else "    Mark: X9" for ln in lines],
    "remove_macro": lambda lines: [ln for ln in lines if not (ln.startswith("Macro: X") or ln.startswith("    "))],
    "retype_macro": lambda lines: ["Mark: notmacro" if ln.startswith("Macro: X") else ln for ln in lines],
}


def harness_edit(sym):
    import openpectus.protocol.models as Mdl
    from openpectus.lang.exec.errors import MethodEditError
    kind = sym.shard["edit"]
    te = sym.int("edit_tick", 1, 20)
    n = 34
    with engine_rig(sym, EDIT_PCODE) as rig:
        e = rig.engine
        rig.user("Start")
        outcome = None
        macro_started_at_edit = None
        for i in range(n):
            if te == i:
                old = e.method_manager._method
                prog = e.method_manager.program
                macro_nodes = [nd for nd in prog.get_all_nodes() if type(nd).__name__ == "MacroNode"]
                macro_started_at_edit = any(nd.run_started_count > 0 for nd in macro_nodes)
                texts = EDITS[kind]([ln.content for ln in old.lines])
                by_text = {}
                new_lines = []
                old_ids = [ln.id for ln in old.lines]
                old_txt = [ln.content for ln in old.lines]
                k = 0
                for tx in texts:
                    # keep the id of the line this text came from (edits here never reorder)
                    while k < len(old_txt) and kind == "remove_macro" and old_txt[k] != tx:
                        k += 1
                    lid = old_ids[k] if k < len(old_ids) else f"new{k}"
                    k += 1
                    new_lines.append(Mdl.MethodLine(id=lid, content=tx))
                try:
                    e.set_method(Mdl.Method(lines=new_lines, version=0))
                    outcome = "accepted"
                except MethodEditError:
                    outcome = "rejected"
                except Exception as ex:
                    outcome = "error:" + type(ex).__name__
            rig.tick(0.1)
            sym.check(not rig.tick_errors, "tick-raised", lambda: f"edit {kind}: Engine.tick raised {rig.tick_errors[:1]}")
        marks = rig.marks()
        sym.reach()
        if macro_started_at_edit:
            sym.check(outcome == "rejected", f"edit-of-started-macro-not-rejected|edit={kind}|outcome={outcome}",
                      lambda: f"edit {kind} at tick {te} of a macro that had started: outcome {outcome}")
            if outcome == "rejected":
                sym.check(not e.has_error_state(), f"rejected-edit-left-error-state|edit={kind}", lambda: f"{e.get_error_state_exception()!r}")
                sym.check(marks == ["M1", "X1", "X2", "M2", "X1", "X2", "END"], f"rejected-edit-changed-run|edit={kind}",
                          lambda: f"edit {kind} at tick {te} was rejected but the run gave marks {marks}")


OBLIGATIONS = [
    Obligation(name="calls", kind="crosshair", harness=harness_run, shards=lambda tier: [{"template": t} for t in TEMPLATES],
               cpu_budget={"quick": 300.0, "thorough": 900.0},
               encoded=["openpectus.lang.exec.pinterpreter:PInterpreter.visit_MacroNode", "openpectus.lang.exec.pinterpreter:PInterpreter.visit_CallMacroNode",
                        "openpectus.lang.exec.pinterpreter:PInterpreter._register_macro", "openpectus.lang.model.ast:MacroNode.macro_calling_macro"],
               symbolic="duration of the UOD command in the macro body (1..4 iterations)",
               bounds={"quick": "6 templates: redefinition between calls, nested call, three calls with a UOD command in the body, direct / mutual / 3-cycle recursion",
                       "thorough": "same"},
               assumptions=["tick interval fixed", "fake hardware; log statements removed at import"]),
    Obligation(name="generated", kind="crosshair", harness=harness_generated, shards=_shards_generated,
               cpu_budget={"quick": 300.0, "thorough": 3000.0},
               encoded=["openpectus.lang.exec.pinterpreter:PInterpreter.visit_MacroNode", "openpectus.lang.exec.pinterpreter:PInterpreter.visit_CallMacroNode",
                        "openpectus.lang.model.ast:MacroNode.macro_calling_macro"],
               symbolic="every body item of every macro (a Mark or a call of any of the macros; selectors), the two top-level calls (selectors)",
               bounds={"quick": "2 macros with 2 body items each (all 81 call graphs) x all 4 pairs of top-level calls, with and without a redefinition of the first macro between the calls",
                       "thorough": "3 macros with 2 body items each (all 4096 call graphs) x all 9 pairs of top-level calls, with and without redefinition"},
               assumptions=["reference = the statement read dynamically (a call of a macro that is already running fails); an implementation that fails earlier, at an enclosing call of the same cycle, is accepted",
                            "tick interval fixed; fake hardware; log statements removed at import"]),
    Obligation(name="edit_started_macro", kind="crosshair", harness=harness_edit, shards=lambda tier: [{"edit": k} for k in EDITS],
               cpu_budget={"quick": 300.0, "thorough": 900.0},
               encoded=["openpectus.engine.method_manager:MethodManager._validate_liveedit_method", "openpectus.engine.engine:Engine.set_method",
                        "openpectus.lang.model.ast:Node.matches_source"],
               symbolic="tick of the edit (1..20): before the macro is defined, between definition and call, during the first call, between calls, during the second call",
               bounds={"quick": "3 edits (change a body line, remove the macro, turn the Macro line into another instruction) of a macro called twice, 34 ticks", "thorough": "same"},
               assumptions=["only edits of a macro that has already started are judged here (they must be rejected and change nothing); accepted edits are the subject of C01",
                            "fake hardware; log statements removed at import"]),
]

MANIFEST = {
    "level": "model_checking",
    "text": "Bounded exhaustive symbolic execution (CrossHair/z3) of the real interpreter on macro templates (redefinition, nesting, repeated calls, direct/mutual/3-cycle recursion) and of live edits of a started macro at every tick of a run (edit tick is a solver variable): Mark traces compared with the expected expansion; recursion must fail without repeating a body line; edits of started macros must be rejected without effect.",
    "note": "Trusted: CrossHair/z3; the six call templates and three edit kinds bound the claim.",
    "technique": "symbolic execution of the real interpreter and method manager (CrossHair + z3), bounded exhaustive over edit tick and command duration, counterexample replay",
}
