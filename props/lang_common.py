"""Shared helpers for the language front end properties (C17..C20).

Nothing here copies repo logic: the parser, analyzers, regexes and unit tables are imported from /repo at
call time (inside functions, so the worker's import hook is installed first).
"""
from __future__ import annotations

import contextlib

# --------------------------------------------------------------------------------------------------
# line kinds used by the structure pass (C17a).  text has NO indentation; the indentation is symbolic.
# --------------------------------------------------------------------------------------------------
UOD_COMMAND = "Reset"
KIND_TEXT = {
    "Mark": "Mark: A",
    "Block": "Block: B",
    "Watch": "Watch: Run Time > 1 s",
    "Alarm": "Alarm: Run Time > 1 s",
    "Macro": "Macro: M",
    "End block": "End block",
    "blank": "",
    "comment": "# c",
    "UOD command": UOD_COMMAND,
}
ALL_KINDS = list(KIND_TEXT)
OPENERS = ("Block", "Watch", "Alarm", "Macro")
WHITESPACE = ("blank", "comment")


def make_method(lines):
    """ParserMethod with ids L0, L1, ... (ids differ from the positions on purpose)."""
    from openpectus.lang.model.parser import ParserMethod, ParserMethodLine
    return ParserMethod(lines=[ParserMethodLine(id=f"L{i}", content=c) for i, c in enumerate(lines)])


@contextlib.contextmanager
def patched(obj, name, value):
    old = getattr(obj, name)
    setattr(obj, name, value)
    try:
        yield
    finally:
        setattr(obj, name, old)


class ConcretisingPattern:
    """Stands in for a compiled `re.Pattern`: the subject string is concretised (the solver picks a model value
    and pins it) immediately before the real C regex engine runs.  Under replay it is the identity."""

    def __init__(self, real, sym):
        self._real = real
        self._sym = sym
        self.pattern = real.pattern

    def match(self, s, *a):
        s = self._sym.realize(s)
        with self._sym.concrete():
            return self._real.match(s, *a)

    def search(self, s, *a):
        s = self._sym.realize(s)
        with self._sym.concrete():
            return self._real.search(s, *a)


class ConcretisingRe:
    """Stands in for the `re` module inside one repo module (`parser.re`)."""

    def __init__(self, sym):
        import re as _re
        self._re = _re
        self._sym = sym

    def _pat(self, p):
        return p._real if isinstance(p, ConcretisingPattern) else p

    def search(self, pattern, s, *a):
        s = self._sym.realize(s)
        with self._sym.concrete():
            return self._re.search(self._pat(pattern), s, *a)

    def match(self, pattern, s, *a):
        s = self._sym.realize(s)
        with self._sym.concrete():
            return self._re.match(self._pat(pattern), s, *a)

    def __getattr__(self, name):
        return getattr(self._re, name)


@contextlib.contextmanager
def regex_boundary(sym):
    """Inside: the parser's three regular expressions run on concretised subjects (C boundary)."""
    import openpectus.lang.model.parser as pm
    G = pm.Grammar
    olds = (G.instruction_line_pattern, pm.re)
    G.instruction_line_pattern = ConcretisingPattern(olds[0], sym)
    pm.re = ConcretisingRe(sym)
    try:
        yield
    finally:
        G.instruction_line_pattern, pm.re = olds


def all_nodes(program):
    """Pre-order list of the program's nodes without the root."""
    return program.get_all_nodes()[1:]


def supported_units():
    from openpectus.lang.exec.units import get_supported_units
    return [u for u in get_supported_units() if u is not None]


@contextlib.contextmanager
def exact_int_division(sym):
    """`int((a - b) / 4)` in parse_method: CrossHair models the true division in floating point (IEEE: ~40 ms per
    solver call; real-valued: the conversion back to int enumerates).  For exact integers below 2**53 the expression
    equals truncating integer division, which is what this context substitutes *in CrossHair's model only*: the
    module-level name `int` of the parser module is shadowed by a function that recognises the z3 term
    ToReal(e) / c (c a positive integer constant) and returns the SymbolicInt  trunc(e / c).  Anything else falls
    through to the builtin.  On replay nothing is patched."""
    if sym.mode != "symbolic":
        yield
        return
    import z3
    import openpectus.lang.model.parser as pm
    from crosshair.libimpl import builtinslib as bl
    from crosshair.statespace import context_statespace
    from crosshair.tracers import NoTracing
    with NoTracing():
        context_statespace().extra(bl.ModelingDirector).global_representations[float] = bl.RealBasedSymbolicFloat

    def _int(x, *a):
        with NoTracing():
            v = getattr(x, "var", None)
            if (v is not None and not a and z3.is_expr(v) and v.sort() == z3.RealSort()
                    and v.decl().kind() == z3.Z3_OP_DIV):
                num, den = v.arg(0), v.arg(1)
                if (num.decl().kind() == z3.Z3_OP_TO_REAL and z3.is_rational_value(den)
                        and den.denominator_as_long() == 1 and den.numerator_as_long() > 0):
                    e, d = num.arg(0), z3.IntVal(den.numerator_as_long())
                    return bl.SymbolicInt(z3.If(e >= 0, e / d, -((-e) / d)))
        return int(x, *a)

    had = "int" in pm.__dict__
    old = pm.__dict__.get("int")
    pm.int = _int
    try:
        yield
    finally:
        if had:
            pm.int = old
        else:
            del pm.int
