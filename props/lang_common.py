"""Shared helpers for the language front end properties (C17..C20).

Nothing here copies repo logic: the parser, analyzers, regexes and unit tables are imported from /repo at
call time (inside functions, so the worker's import hook is installed first).
"""
from __future__ import annotations

import contextlib

# --------------------------------------------------------------------------------------------------
# line kinds used by the structure pass (C17a).  text has NO indentation; the indentation is symbolic.
# --------------------------------------------------------------------------------------------------
UOD_COMMAND = "Reset"
KIND_TEXT = {
    "Mark": "Mark: A",
    "Block": "Block: B",
    "Watch": "Watch: Run Time > 1 s",
    "Alarm": "Alarm: Run Time > 1 s",
    "Macro": "Macro: M",
    "End block": "End block",
    "blank": "",
    "comment": "# c",
    "UOD command": UOD_COMMAND,
}
ALL_KINDS = list(KIND_TEXT)
OPENERS = ("Block", "Watch", "Alarm", "Macro")
WHITESPACE = ("blank", "comment")


def make_method(lines):
    """ParserMethod with ids L0, L1, ... (ids differ from the positions on purpose)."""
    from openpectus.lang.model.parser import ParserMethod, ParserMethodLine
    return ParserMethod(lines=[ParserMethodLine(id=f"L{i}", content=c) for i, c in enumerate(lines)])


@contextlib.contextmanager
def patched(obj, name, value):
    old = getattr(obj, name)
    setattr(obj, name, value)
    try:
        yield
    finally:
        setattr(obj, name, old)


class ConcretisingPattern:
    """Stands in for a compiled `re.Pattern`: the subject string is concretised (the solver picks a model value
    and pins it) immediately before the real C regex engine runs.  Under replay it is the identity."""

    def __init__(self, real, sym):
        self._real = real
        self._sym = sym
        self.pattern = real.pattern

    def match(self, s, *a):
        s = self._sym.realize(s)
        with self._sym.concrete():
            return self._real.match(s, *a)

    def search(self, s, *a):
        s = self._sym.realize(s)
        with self._sym.concrete():
            return self._real.search(s, *a)


class ConcretisingRe:
    """Stands in for the `re` module inside one repo module (`parser.re`)."""

    def __init__(self, sym):
        import re as _re
        self._re = _re
        self._sym = sym

    def _pat(self, p):
        return p._real if isinstance(p, ConcretisingPattern) else p

    def search(self, pattern, s, *a):
        s = self._sym.realize(s)
        with self._sym.concrete():
            return self._re.search(self._pat(pattern), s, *a)

    def match(self, pattern, s, *a):
        s = self._sym.realize(s)
        with self._sym.concrete():
            return self._re.match(self._pat(pattern), s, *a)

    def __getattr__(self, name):
        return getattr(self._re, name)


@contextlib.contextmanager
def regex_boundary(sym):
    """Inside: the parser's three regular expressions run on concretised subjects (C boundary)."""
    import openpectus.lang.model.parser as pm
    G = pm.Grammar
    olds = (G.instruction_line_pattern, pm.re)
    G.instruction_line_pattern = ConcretisingPattern(olds[0], sym)
    pm.re = ConcretisingRe(sym)
    try:
        yield
    finally:
        G.instruction_line_pattern, pm.re = olds


def all_nodes(program):
    """Pre-order list of the program's nodes without the root."""
    return program.get_all_nodes()[1:]


def supported_units():
    from openpectus.lang.exec.units import get_supported_units
    return [u for u in get_supported_units() if u is not None]


@contextlib.contextmanager
def exact_int_division(sym):
    """`int((a - b) / 4)` in parse_method: CrossHair models the true division in floating point (IEEE: ~40 ms per
    solver call; real-valued: the conversion back to int enumerates).  For exact integers below 2**53 the expression
    equals truncating integer division, which is what this context substitutes *in CrossHair's model only*: the
    module-level name `int` of the parser module is shadowed by a function that recognises the z3 term
    ToReal(e) / c (c a positive integer constant) and returns the SymbolicInt  trunc(e / c).  Anything else falls
    through to the builtin.  On replay nothing is patched."""
    if sym.mode != "symbolic":
        yield
        return
    import z3
    import openpectus.lang.model.parser as pm
    from crosshair.libimpl import builtinslib as bl
    from crosshair.statespace import context_statespace
    from crosshair.tracers import NoTracing
    with NoTracing():
        context_statespace().extra(bl.ModelingDirector).global_representations[float] = bl.RealBasedSymbolicFloat

    def _int(x, *a):
        with NoTracing():
            v = getattr(x, "var", None)
            if (v is not None and not a and z3.is_expr(v) and v.sort() == z3.RealSort()
                    and v.decl().kind() == z3.Z3_OP_DIV):
                num, den = v.arg(0), v.arg(1)
                if (num.decl().kind() == z3.Z3_OP_TO_REAL and z3.is_rational_value(den)
                        and den.denominator_as_long() == 1 and den.numerator_as_long() > 0):
                    e, d = num.arg(0), z3.IntVal(den.numerator_as_long())
                    return bl.SymbolicInt(z3.If(e >= 0, e / d, -((-e) / d)))
        return int(x, *a)

    had = "int" in pm.__dict__
    old = pm.__dict__.get("int")
    pm.int = _int
    try:
        yield
    finally:
        if had:
            pm.int = old
        else:
            del pm.int


# --------------------------------------------------------------------------------------------------
# C20: analyzer side (as the aggregator builds it) and engine side (a real engine run)
# --------------------------------------------------------------------------------------------------
def _gen_uod(with_volume, extra_tag_unit=None):
    """A UOD generated for the check: tags with units of many quantities (all with numeric values), regex-argument
    commands of every kind the repo offers, optionally a volume totalizer and a column volume."""
    from openpectus.engine.hardware import HardwareLayerBase
    from openpectus.lang.exec.uod import UodBuilder
    from openpectus.lang.exec.tags import Tag
    from openpectus.lang.exec import regex

    class NullHW(HardwareLayerBase):
        def read(self, r):
            return None

        def write(self, value, r):
            pass

        def connect(self):
            self._is_connected = True

        def disconnect(self):
            self._is_connected = False

    def done(cmd, **kvargs):
        cmd.set_complete()

    def done_noargs(cmd):
        cmd.set_complete()

    def done_number(cmd, number, number_unit=None):
        cmd.set_complete()

    def done_option(cmd, option):
        cmd.set_complete()

    def done_text(cmd, text):
        cmd.set_complete()

    def done_value(cmd, value):
        cmd.set_complete()

    b = (UodBuilder().with_instrument("GenUod").with_author("a", "a@example.org").with_filename(__file__)
         .with_hardware(NullHW()).with_location("loc"))
    for name, value, unit in [("Flow", 1.0, "L/h"), ("Temp", 20.0, "degC"), ("Cond", 1.0, "mS/cm"), ("Mass", 1.0, "kg"),
                              ("Pct", 1.0, "%"), ("VolPct", 1.0, "vol%"), ("Abs", 1.0, "AU"), ("Perm", 1.0, "LMH/bar"),
                              ("Level", 1.0, None), ("State", "Open", None), ("Meter", 1.0, "L"), ("ColVol", 2.0, "L"),
                              ("Two Words", 1.0, "s")]:
        b = b.with_tag(Tag(name, value=value, unit=unit))
    if extra_tag_unit is not None:
        b = b.with_tag(Tag("T", value=1.0, unit=extra_tag_unit))
    else:
        b = b.with_tag(Tag("T", value=1.0, unit=None))
    b = (b.with_command_regex_arguments("Dose", regex.RegexNumber(units=["mL", "L"]), done_number)
         .with_command_regex_arguments("Count", regex.RegexNumber(units=None, non_negative=True, int_only=True), done_number)
         .with_command_regex_arguments("Valve", regex.RegexCategorical(exclusive_options=["Closed"], additive_options=["VA01", "VA02"]), done_option)
         .with_command_regex_arguments("Note", regex.RegexText(allow_empty=False), done_text)
         .with_command_regex_arguments("Speed", regex.RegexNumberOptional(units=["%"]), done_number)
         .with_command_regex_arguments("Set flow rate", regex.RegexNumber(units=["L/h", "L/min"], non_negative=True), done_number)
         .with_command("Home", exec_fn=done_noargs, arg_parse_fn=None)
         .with_command("Free", exec_fn=done_value))
    if with_volume:
        b = b.with_accumulated_volume(totalizer_tag_name="Meter").with_accumulated_cv(cv_tag_name="ColVol", totalizer_tag_name="Meter")
    uod = b.build()
    uod.hwl.connect()
    return uod


def uod_factories():
    """name -> zero-argument factory of a fresh UOD"""
    def demo():
        from openpectus.engine.configuration import demo_uod
        return demo_uod.create()

    def test():
        import io
        import contextlib as _c
        from openpectus.test.engine.test_engine import create_test_uod
        with _c.redirect_stdout(io.StringIO()):
            return create_test_uod()

    return {"demo": demo, "test": test, "gen_novol": lambda: _gen_uod(False), "gen_vol": lambda: _gen_uod(True)}


def make_uod(name):
    if name.startswith("gen_unit:"):
        return _gen_uod(False, extra_tag_unit=name.split(":", 1)[1])
    uod = uod_factories()[name]()
    if not uod.hwl.is_connected:
        uod.hwl.connect()
    return uod


class Sides:
    """Engine + the analyzer input built from what that engine publishes (create_lsp_definition +
    get_command_definitions -> protocol UodDefinition -> JSON -> build_tags / build_commands)."""

    def __init__(self, uod_name):
        from openpectus.engine.engine import Engine
        from openpectus.lsp import lsp_analysis
        import openpectus.protocol.models as Mdl
        self.uod_name = uod_name
        self.uod = make_uod(uod_name)
        self.engine = Engine(self.uod)
        d = self.uod.create_lsp_definition()
        d.system_commands = self.engine.get_command_definitions()
        d = Mdl.UodDefinition.model_validate_json(d.model_dump_json())      # what arrives at the aggregator
        self.definition = d
        self.tags = lsp_analysis.build_tags(d)
        self.commands = lsp_analysis.build_commands(d)

    def close(self):
        self.engine.cleanup()

    def analyzer_errors(self, pcode):
        """ERROR items of the editor's analysis of `pcode` (parser configured as lsp_analysis.analyze configures it)."""
        from openpectus.lang.exec.analyzer import SemanticCheckAnalyzer
        from openpectus.lang.model.parser import ParserMethod, create_method_parser
        method = ParserMethod.from_pcode(pcode)
        program = create_method_parser(method, uod_command_names=[]).parse_method(method)
        a = SemanticCheckAnalyzer(self.tags, self.commands)
        try:
            a.analyze(program)
        except Exception as e:  # noqa  -- a crashing analysis (C19) is not "analysis reports no errors"
            return [e]
        return a.errors


def run_on_engine(uod_name, pcode, ticks=12):
    """Run `pcode` on a fresh real engine: Start, then `ticks` ticks of 0.1 s.  Returns the engine's error-state
    exception (None when the method did not fail)."""
    import time
    from openpectus.engine.engine import Engine
    from openpectus.engine.models import EngineCommandEnum
    import openpectus.protocol.models as Mdl
    uod = make_uod(uod_name)
    engine = Engine(uod)
    try:
        engine.run(skip_timer_start=True)
        engine.set_method(Mdl.Method.from_pcode(pcode))
        engine.schedule_execution(EngineCommandEnum.START)
        t0 = time.time()
        for k in range(ticks):
            try:
                engine.tick(t0 + 0.1 * k, 0.1)
            except Exception as e:  # noqa  -- tick is not supposed to raise (C13); treat as failure of the run
                return e
            if engine.has_error_state():
                break
        return engine.get_error_state_exception()
    finally:
        try:
            if engine.interpreter._generator is not None:
                engine.interpreter._generator.close()
        except Exception:  # noqa
            pass
        engine.cleanup()


def failure_kind(exc):
    """Which of the three failure kinds of C20 an engine error is (None: some other failure, not claimed by C20)."""
    text = (getattr(exc, "message", "") or "") + " " + str(exc) + " " + repr(getattr(exc, "__cause__", "") or "")
    low = text.lower()
    if "invalid instruction" in low or "unknown command" in low or "unknown internal engine command" in low \
            or "invalid command type" in low or "unknown tag" in low or ("tag name" in low and "not found" in low) \
            or "is not supported" in low and "interpreter command" in low:
        return "name"
    if "invalid argument" in low or "failed to initialize arguments" in low or "invalid arguments" in low:
        return "argument"
    if "incompatible units" in low or "non-pint units" in low or "cannot convert" in low or "dimensionality" in low \
            or "conversion error" in low:
        return "units"
    return None
