"""C17  Parsing maps every line to one node with indentation structure.

Real code: openpectus.lang.model.parser.PcodeParser.parse_method / _parse_line / _parse_tag_operator_value,
MethodLineIdGenerator.

 (a) structure   the indentation pass of parse_method runs on nodes produced by the real _parse_line from concrete
                 text per line kind; the indentation of every line is an unbounded solver integer.
 (a') lexer      the contract (a) relies on (character = number of leading blanks, indent_error = character % 4 != 0)
                 is a finite table over the real _parse_line.
 (b) totality    parse_method on a line containing a short symbolic string; the pure-Python part runs symbolically,
                 the string is concretised immediately before the C regex engine (bounded exhaustive, concrete decision).

Reference for (a), written from the property statement only.  Whitespace lines (blank, comment) are never required to
have a particular parent.  A non-whitespace line at indentation d is *well indented* when d is a multiple of four and
either d == 0 or the nearest preceding non-whitespace line with smaller indentation is an opener (Block, Watch, Alarm,
Macro) at d-4; that opener (or the program for d == 0) is its reference parent.  The oracle accepts every reading of
the statement:
   * while no line so far carries indent_error: a well indented line must hang under its reference parent
     (otherwise it was silently re-nested) and a badly indented line must carry the flag;
   * once any line (whitespace included) has been flagged nothing further is demanded about parents or flags;
   * a text that is well indented even when whitespace lines are held to the same rule as instructions must not have
     any instruction flagged.
"""
from symx.obligation import Obligation
from props.lang_common import (KIND_TEXT, ALL_KINDS, OPENERS, WHITESPACE, UOD_COMMAND, make_method, all_nodes,
                               regex_boundary, exact_int_division)

BIG = 2 ** 40      # indentation is only compared, taken mod 4 and divided by 4: the bound is not a fork source


def _fail(sym, signature, detail_fn):
    sym.check(False, signature, detail_fn())


def _cls(kind):
    if kind is None:
        return "none"
    return "opener" if kind in OPENERS else "plain"


def harness_structure(sym):
    import openpectus.lang.model.ast as p
    from openpectus.lang.model.parser import PcodeParser, MethodLineIdGenerator
    n = sym.shard.get("n", 3)
    prefix = sym.shard.get("kinds", [])
    alphabet = sym.shard.get("alphabet", ALL_KINDS)
    kinds = [prefix[i] if i < len(prefix) else sym.choice(f"kind{i}", alphabet) for i in range(n)]
    ind = [sym.int(f"indent{i}", 0, BIG) for i in range(n)]
    with sym.concrete():
        method = make_method([KIND_TEXT[k] for k in kinds])

    class Parser(PcodeParser):
        def _parse_line(self, line, line_no):
            with sym.concrete():
                node = PcodeParser._parse_line(self, line, line_no)     # real lexer on the concrete text of the kind
            # lexer contract (checked by obligation `lexer_contract`): character = leading blanks,
            # indent_error = character % 4 != 0 for instruction lines, never set for whitespace lines
            node.position = p.Position(line=line_no, character=ind[line_no])
            if not isinstance(node, p.WhitespaceNode):
                node.indent_error = ind[line_no] % 4 != 0
            return node

    with sym.concrete():
        parser = Parser(id_generator=MethodLineIdGenerator(method), uod_command_names=[UOD_COMMAND])
    with exact_int_division(sym):
        try:
            program = parser.parse_method(method)
        except Exception as e:  # noqa
            sym.check(False, f"raises|parse_method|{type(e).__name__}", f"kinds={kinds}: {e!r}")
            return
    nodes = all_nodes(program)

    def show():
        # no solver values here: concretising them on a failing path would make the solver enumerate the failures
        return f"kinds={kinds}" + (f" indents={ind}" if sym.mode == "replay" else " (indentations: see witness)")

    # --- one node per line, in source order, identified by the line id ----------------------------------
    sym.check(len(nodes) == n, "one-node-per-line", f"kinds={kinds}: {len(nodes)} nodes for {n} lines")
    for i, nd in enumerate(nodes):
        sym.check(nd.id == f"L{i}" and nd.position.line == i, "ids-in-source-order",
                  f"kinds={kinds}: node {i} has id {nd.id!r}")
        sym.check(nd.parent is not None, "node-without-parent", f"kinds={kinds}: node {i}")

    # --- indentation structure ---------------------------------------------------------------------------
    # (solver forks are kept to the decisions that matter: strictness and the signature's relation are only
    #  evaluated on the branch that needs them)
    def strict_prefix(i):
        """lines 0..i well indented with whitespace lines held to the instruction rule"""
        if not ind[0] == 0:
            return False
        for j in range(1, i + 1):
            d, pd = ind[j], ind[j - 1]
            if not d % 4 == 0:
                return False
            if not (d <= pd or (kinds[j - 1] in OPENERS and d == pd + 4)):
                return False
        return True

    def where(i):
        prev = [j for j in range(i) if kinds[j] not in WHITESPACE]
        if not prev:
            return "prev=none|rel=first"
        j = prev[-1]
        rel = "same" if ind[i] == ind[j] else ("dedent" if ind[i] < ind[j] else "deeper")
        return f"prev={_cls(kinds[j])}|rel={rel}"

    chain = []            # open openers among the non-whitespace lines so far: (indent, line index)
    for i in range(n):
        nd, d, k = nodes[i], ind[i], kinds[i]
        if nd.indent_error:
            # a flag ends all demands, except: a strictly well indented text must not have an instruction flagged
            if k not in WHITESPACE and strict_prefix(i):
                _fail(sym, f"false-flag|{where(i)}", lambda: "strictly well indented text, line %d flagged: %s" % (i, show()))
            sym.reach()
            break
        if k in WHITESPACE:
            continue
        while chain and chain[-1][0] >= d:
            chain.pop()
        if chain:
            valid = d == chain[-1][0] + 4          # chain indents are multiples of four (all earlier lines were valid)
            ref_parent = nodes[chain[-1][1]]
        else:
            valid = d == 0
            ref_parent = program
        if not valid:
            _fail(sym, f"unflagged-bad-indent|{where(i)}", lambda: "line %d is badly indented, neither it nor any earlier line is flagged: %s" % (i, show()))
        elif nd.parent is not ref_parent:
            _fail(sym, f"silent-renest|{where(i)}",
                  lambda: "line %d hangs under %s instead of %s and nothing is flagged: %s" % (i, nd.parent.id, ref_parent.id, show()))
        else:
            sym.reach()
        if k in OPENERS:
            chain.append((d, i))
    sym.note("kinds", kinds)


# The pass only asks a node whether it opens a body, whether it is whitespace, and for its indentation; each rotation
# takes one kind of each of the three classes, all rotations together use every kind.
ROTATIONS = [["Mark", "Block", "blank"], ["End block", "Watch", "comment"], ["UOD command", "Alarm", "blank"],
             ["Mark", "Macro", "comment"]]


def _prefixes(alphabet, k):
    out = [[]]
    for _ in range(k):
        out = [pre + [a] for pre in out for a in alphabet]
    return out


def _structure_shards(tier):
    sh = []
    if tier == "quick":
        sh += [{"n": 4, "kinds": pre, "alphabet": ROTATIONS[0]} for pre in _prefixes(ROTATIONS[0], 3)]
        for rot in ROTATIONS[1:]:
            sh += [{"n": 3, "kinds": pre, "alphabet": rot} for pre in _prefixes(rot, 1)]
        return sh
    # a 5 line text starting with a plain or whitespace line leaves the pass in its initial state after line 0:
    # the 5 line bound is spent on texts that start with an opener
    sh += [{"n": 5, "kinds": ["Block"] + pre, "alphabet": ROTATIONS[0]} for pre in _prefixes(ROTATIONS[0], 3)]
    for rot in ROTATIONS:
        sh += [{"n": 4, "kinds": pre, "alphabet": rot} for pre in _prefixes(rot, 3)]
    sh += [{"n": 3, "kinds": pre, "alphabet": ALL_KINDS} for pre in _prefixes(ALL_KINDS, 2)]
    return sh


# --------------------------------------------------------------------------------------------------------------
# (a') lexer contract: finite table over the real _parse_line
# --------------------------------------------------------------------------------------------------------------
def _lexer_rows():
    texts = dict(KIND_TEXT)
    texts["threshold"] = "1.5 Mark: A"
    texts["unknown"] = "Foo bar: x # c"
    return [(k, t, sp) for k, t in texts.items() for sp in range(0, 14)]


def _lexer_check(kind, text, sp):
    """returns None or (signature, detail)"""
    import openpectus.lang.model.ast as p
    from openpectus.lang.model.parser import PcodeParser
    line = " " * sp + text
    node = PcodeParser(uod_command_names=[UOD_COMMAND])._parse_line(line, 0)
    if node.position.character != sp:
        return (f"lexer-character|kind={kind}", f"{line!r}: character={node.position.character}, {sp} leading blanks")
    want = False if isinstance(node, p.WhitespaceNode) else sp % 4 != 0
    if bool(node.indent_error) != want:
        return (f"lexer-indent-error|kind={kind}", f"{line!r}: indent_error={node.indent_error}")
    return None


def run_lexer(shard, tier):
    rows, viol = 0, []
    for kind, text, sp in _lexer_rows():
        rows += 1
        r = _lexer_check(kind, text, sp)
        if r:
            viol.append({"signature": r[0], "detail": r[1], "witness": {"kind": kind, "text": text, "sp": sp}})
    return {"table_rows": rows, "queries": 0, "unsat": 0, "sat": 0, "unknown": 0, "violations": viol[:20],
            "samples": [{"kind": "Mark", "sp": 4, "line": "    Mark: A"}]}


def replay_lexer(witness, shard):
    from symx import Violation
    r = _lexer_check(witness["kind"], witness["text"], witness["sp"])
    if r:
        raise Violation(r[0], r[1])


# --------------------------------------------------------------------------------------------------------------
# (b) totality on arbitrary short text
# --------------------------------------------------------------------------------------------------------------
# grammar specials, one letter, one ASCII digit, one non-ASCII decimal digit, three kinds of whitespace
ALPHABET = ":#.<>=!+-eA1٣ \t "
FRAMES = [          # (prefix, suffix): the symbolic string is placed where the grammar has something to say
    ("", ""),
    ("", "Mark: A"),
    ("Mark", ""),
    ("Mark:", ""),
    ("Watch: ", ""),
    ("Watch: A", ""),
    ("Watch: A >", ""),
    ("Watch: A > 1", ""),
    ("Alarm: A ", " 1 s"),
    ("Simulate: A", ""),
    ("Simulate: A = ", ""),
    ("Simulate off:", ""),
    ("1", " Mark: A"),
    ("    ", "Reset"),
    ("Mark: A", "# c"),
    ("Base: ", ""),
]


def harness_totality(sym):
    import openpectus.lang.model.ast as p
    from openpectus.lang.model.parser import PcodeParser, MethodLineIdGenerator
    prefix, suffix = FRAMES[sym.shard["frame"]]
    s = sym.str("s", sym.shard["max_len"], sym.shard.get("alphabet", ALPHABET))
    line = prefix + s + suffix
    with sym.concrete():
        method = make_method(["Mark: first", "", "Mark: last"])
    method.lines[1].content = line
    with sym.concrete():
        parser = PcodeParser(id_generator=MethodLineIdGenerator(method), uod_command_names=[UOD_COMMAND])
    with regex_boundary(sym):
        try:
            program = parser.parse_method(method)
        except Exception as e:  # noqa
            where = "regex" if type(e).__name__ == "error" else "parser"
            sym.check(False, f"raises|parse_method|{type(e).__name__}|frame={sym.shard['frame']}",
                      f"line {sym.realize(line)!r}: {e!r}")
            return
    nodes = all_nodes(program)
    ok = len(nodes) == 3 and [nd.id for nd in nodes] == ["L0", "L1", "L2"]
    if not ok:
        sym.check(False, f"one-node-per-line|frame={sym.shard['frame']}", f"line {sym.realize(line)!r}: nodes {[nd.id for nd in nodes]}")
    sym.reach()
    nd = nodes[1]
    if isinstance(nd, p.NodeWithTagOperatorValue) and nd.tag_operator_value is None:
        sym.check(False, f"no-tag-operator-value|frame={sym.shard['frame']}", f"line {sym.realize(line)!r}")


SMALL_ALPHABET = ":#.=<A1٣ \t"


def _totality_shards(tier):
    if tier == "quick":
        return [{"frame": i, "max_len": 2, "alphabet": SMALL_ALPHABET} for i in range(len(FRAMES))]
    return ([{"frame": i, "max_len": 2} for i in range(len(FRAMES))]
            + [{"frame": i, "max_len": 3, "alphabet": SMALL_ALPHABET} for i in range(len(FRAMES))])


OBLIGATIONS = [
    Obligation(
        name="structure", kind="crosshair", harness=harness_structure, shards=_structure_shards,
        cpu_budget={"quick": 100.0, "thorough": 1500.0},
        encoded=["openpectus.lang.model.parser:PcodeParser.parse_method", "openpectus.lang.model.parser:MethodLineIdGenerator.create_id",
                 "openpectus.lang.model.ast:NodeWithChildren.append_child"],
        symbolic="per line: the indentation (unbounded non-negative integer) and the line kind (selector over Mark, Block, Watch, Alarm, "
                 "Macro, End block, blank, comment, UOD command)",
        bounds={"quick": "4 lines over {Mark, Block, blank}; 3 lines over each of three further kind triples (every kind used)",
                "thorough": "5 lines over {Mark, Block, blank} starting with Block; 4 lines over {Mark, Block, blank} (quick set); 4 lines over each of three further kind triples; 3 lines over all 9 kinds"},
        assumptions=["every node comes from the real _parse_line on the concrete text of its kind; position.character / indent_error are then "
                     "overwritten by the symbolic indentation according to the lexer contract decided by obligation lexer_contract",
                     "reference parent relation written from the property statement; whitespace lines are not required to have any particular parent",
                     "after the first flagged line (whitespace lines included) nothing more is demanded",
                     "int((a-b)/4) in parse_method is evaluated as truncating integer division in CrossHair's model (equal for exact integers below 2**53; indentation < 2**40)", "log statements removed at import"]),
    Obligation(
        name="lexer_contract", kind="finite", run=run_lexer, replay=replay_lexer, decides="table",
        encoded=["openpectus.lang.model.parser:PcodeParser._parse_line"],
        symbolic="none (finite table)", bounds={"quick": "11 line kinds x 0..13 leading blanks", "thorough": "same"},
        assumptions=["blanks are U+0020"]),
    Obligation(
        name="totality", kind="crosshair", harness=harness_totality, shards=_totality_shards, decides="concrete",
        cpu_budget={"quick": 100.0, "thorough": 1200.0},
        encoded=["openpectus.lang.model.parser:PcodeParser._parse_line", "openpectus.lang.model.parser:PcodeParser._parse_tag_operator_value",
                 "openpectus.lang.model.parser:PcodeParser.parse_method"],
        symbolic="a string over the 17-character alphabet " + repr(ALPHABET) + " placed in one of 16 frames (prefix/suffix) on the middle line of a 3 line method",
        bounds={"quick": "string length <= 2 over " + repr(SMALL_ALPHABET), "thorough": "length <= 2 over the 17 characters and length <= 3 over " + repr(SMALL_ALPHABET)},
        assumptions=["strip/startswith/index/len before the regex run on the symbolic string; the line is concretised immediately before "
                     "Grammar.instruction_line_pattern.match and before re.search in _parse_tag_operator_value (C regex engine): "
                     "bounded exhaustive over the strings, each decided by a concrete run", "log statements removed at import"]),
]

MANIFEST = {
    "level": "model_checking",
    "text": "Bounded exhaustive symbolic execution (CrossHair/z3) of the real indentation pass of PcodeParser.parse_method: every text of 4 (quick) / 5 (thorough) lines over the line kinds, the indentation of every line an unbounded solver integer, checked against a reference nesting written from the property statement (one node per line, ids in source order, reference parent while nothing is flagged, badly indented lines flagged, no flag on strictly well indented text). The lexer contract the pass relies on is a finite table over the real _parse_line; totality of parsing on arbitrary short strings is bounded exhaustive with the string concretised at the C regex engine.",
    "note": "Trusted: CrossHair's int model, z3, the reference nesting in props/C17.py. int((a-b)/4) is evaluated as exact integer division in CrossHair's model. Obligation totality is decided by concrete runs (solver-enumerated strings of length <= 2/3 in 16 frames); obligation lexer_contract is a table. Longer texts and strings are outside the claim.",
    "technique": "symbolic execution of the real code (CrossHair + z3), bounded exhaustive path exploration with unbounded symbolic indentation, counterexample replay; finite table; solver-enumerated concrete runs at the regex boundary",
}
