"""C32  Role-based access control covers every unit and run endpoint.

The route table is read from the live APIRouters of openpectus.aggregator.routers.* at run time (path, HTTP methods,
endpoint function, FastAPI's resolved dependencies).  Three obligations:

 * target_routes  -- every route whose path has a unit / engine / run parameter.  The real endpoint function is called
   directly with the user's role set and the target's required-role set built from solver membership bits over a 2-role (thorough: 4-role)
   universe, a real `Aggregator` (recording fake dispatcher) holding the unit, in-memory fake repositories holding the
   run.  A user who lacks every required role must be refused (HTTPException 401/403, or 404 before any sub-resource is read) with no rpc sent and no unit
   state changed; a target that requires no role must not be refused with 401/403.  A route that has such a parameter
   but no `user_roles` dependency at all cannot refuse anybody: it is called with a target that requires a role and is
   reported by route when it hands out the target's data.
 * listing_routes -- routes of the same routers with a roles dependency and no target parameter (the listings): two
   targets, solver bits for the user's and both targets' roles; an inaccessible target must not appear in the response,
   a target without required roles must.
 * lsp_entry_points -- the functions of openpectus.lsp.lsp_analysis that take an `engine_id` and read the aggregator
   (found by inspecting the live module): the method-editor service behind /lsp/websocket.  Same rule as for routes
   without a roles dependency.
"""
import re

from symx.obligation import Obligation
from props.agg_common2 import patched, Stepper

ROLES = ["operator", "scientist", "admin", "service"]
MARK = "Zq7"                      # substring of every string field of a target: recognises the target's data in a response
UNIT, UNIT2, OFFLINE_UNIT, RUN, RUN2 = f"E1-{MARK}a", f"E2-{MARK}b", f"E3-{MARK}c", f"R1-{MARK}d", f"R2-{MARK}e"
ROUTER_MODULES = ["process_unit", "recent_runs", "lsp"]
TARGET_PARAM = re.compile(r"^(unit|engine|process_unit|run|recent_run)_id$")


# ---------------------------------------------------------------------------------------------------
# route table (live)
# ---------------------------------------------------------------------------------------------------
def route_table():
    import importlib
    import openpectus.aggregator.routers.auth as auth
    table = {}
    for modname in ROUTER_MODULES:
        mod = importlib.import_module(f"openpectus.aggregator.routers.{modname}")
        for rt in mod.router.routes:
            dep = getattr(rt, "dependant", None)
            if dep is None:
                continue
            methods = ",".join(sorted(getattr(rt, "methods", None) or ["WS"]))
            key = f"{methods} {rt.path}"
            targets = [p.name for p in dep.path_params if TARGET_PARAM.match(p.name)]
            roles_param = next((d.name for d in dep.dependencies if d.call is auth.user_roles), None)
            table[key] = dict(key=key, module=mod, route=rt, dependant=dep, targets=targets, roles_param=roles_param)
    return table


def lsp_entry_points():
    """functions of lsp_analysis with an engine_id parameter whose code calls get_aggregator"""
    import inspect
    import openpectus.lsp.lsp_analysis as LA
    out = {}
    for name, fn in vars(LA).items():
        if inspect.isfunction(fn) and fn.__module__ == LA.__name__ and "engine_id" in inspect.signature(fn).parameters \
                and "get_aggregator" in fn.__code__.co_names:
            out[name] = fn
    return out


# ---------------------------------------------------------------------------------------------------
# world
# ---------------------------------------------------------------------------------------------------
class _World:
    pass


def _make_unit(Mdl, P, engine_id, required):
    import datetime
    ed = Mdl.EngineData(engine_id=engine_id, computer_name=f"pc-{engine_id}", engine_version="1", uod_name=f"uod-{engine_id}",
                        uod_author_name=f"author-{engine_id}", uod_author_email=f"{engine_id}@x", uod_filename=f"{engine_id}.py",
                        location=f"lab-{engine_id}")
    ed.required_roles = set(required)
    ed.tags_info.upsert(P.TagValue(name=f"Tag-{engine_id}", tick_time=1.0, value=3, value_unit=None, simulated=True))
    ed.uod_definition = P.UodDefinition(
        commands=[P.CommandDefinition(name=f"Cmd-{engine_id}", validator=None, docstring=f"doc-{engine_id}")],
        system_commands=[], tags=[P.TagDefinition(name=f"Tag-{engine_id}")])
    ed.method = Mdl.Method(lines=[Mdl.MethodLine(id="l1", content=f"Mark: {engine_id}")], version=1, last_author=f"author-{engine_id}")
    ed.error_log.aggregate_with(Mdl.ErrorLog(entries=[Mdl.ErrorLogEntry(message=f"err-{engine_id}", created_time=1.0, severity=40)]))
    ed.run_data = Mdl.RunData.empty(run_id=f"run-{engine_id}", run_started=datetime.datetime(2024, 1, 1, tzinfo=datetime.timezone.utc))
    return ed


def _make_world(sym, unit_roles, run_roles):
    """unit_roles: {engine_id: required roles} registered with the aggregator (OFFLINE_UNIT goes to the recent-engine table);
    run_roles: {run_id: required roles} in the recent-run table."""
    import datetime
    import openpectus.aggregator.aggregator as A
    import openpectus.aggregator.models as Mdl
    import openpectus.aggregator.data.models as Db
    import openpectus.protocol.models as P
    import openpectus.protocol.messages as M

    w = _World()
    w.sent, w.lookups, w.repo_calls = [], [], []

    class Dispatcher:
        async def rpc_call(self, engine_id, message):
            w.sent.append((engine_id, type(message).__name__))
            return M.SuccessMessage()

    class _Any:
        def __getattr__(self, name):
            return _Any()

        def __call__(self, *a, **k):
            return None

    class Publisher:
        pubsub_endpoint = _Any()

        def register_on_disconnect(self, cb):
            pass

        def __getattr__(self, name):
            async def publish(*a, **k):
                return None
            return publish

    class RecAggregator(A.Aggregator):
        def get_registered_engine_data(self, engine_id):
            w.lookups.append(engine_id)
            return super().get_registered_engine_data(engine_id)

        def get_all_registered_engine_data(self):
            w.lookups.append("*")
            return super().get_all_registered_engine_data()

    class WebPush:
        async def publish_message(self, *a, **k):
            return None

    d = datetime.datetime(2024, 1, 1, tzinfo=datetime.timezone.utc)
    w.agg = RecAggregator(Dispatcher(), Publisher(), WebPush())
    w.units = {}
    recent_engines = []
    for eid, req in unit_roles.items():
        if eid == OFFLINE_UNIT:
            recent_engines.append(Db.RecentEngine(engine_id=eid, run_id=None, run_started=None, run_stopped=None, name=f"name-{eid}",
                                                  system_state="Stopped", location=f"lab-{eid}", last_update=d, contributors=[],
                                                  required_roles=list(req)))
        else:
            w.units[eid] = _make_unit(Mdl, P, eid, req)
            w.agg._engine_data_map[eid] = w.units[eid]
    runs = {rid: Db.RecentRun(engine_id=f"eng-{rid}", run_id=rid, engine_computer_name=f"pc-{rid}", engine_version="1",
                              engine_hardware_str=f"hw-{rid}", aggregator_computer_name=f"agg-{rid}", aggregator_version="1",
                              uod_name=f"uod-{rid}", uod_filename=f"{rid}.py", uod_author_name=f"a-{rid}", uod_author_email=f"{rid}@x",
                              started_date=d, completed_date=d, contributors=[], required_roles=list(req),
                              archive=f"archive-{rid}", archive_filename=f"{rid}.zip")
            for rid, req in run_roles.items()}

    class Repo:
        """RecentRunRepository / PlotLogRepository / RecentEngineRepository over in-memory rows"""

        def __init__(self, session=None):
            pass

        def get_by_run_id(self, run_id):
            w.repo_calls.append(("get_by_run_id", run_id))
            return runs.get(run_id)

        def get_all(self):
            w.repo_calls.append(("get_all",))
            return list(runs.values())

        def get_recent_engines(self):
            w.repo_calls.append(("get_recent_engines",))
            return list(recent_engines)

        def get_method_and_state_by_run_id(self, run_id):
            w.repo_calls.append(("get_method_and_state_by_run_id", run_id))
            if run_id in runs:
                return Db.RecentRunMethodAndState(
                    run_id=run_id, state=Mdl.MethodState.empty(),
                    method=Mdl.Method(lines=[Mdl.MethodLine(id="l1", content=f"Mark: {run_id}")], version=1, last_author=f"a-{run_id}"))

        def get_plot_configuration_by_run_id(self, run_id):
            w.repo_calls.append(("get_plot_configuration_by_run_id", run_id))
            return Mdl.PlotConfiguration.empty() if run_id in runs else None

        def get_run_log_by_run_id(self, run_id):
            w.repo_calls.append(("get_run_log_by_run_id", run_id))
            return Mdl.RunLog.empty() if run_id in runs else None

        def get_error_log_by_run_id(self, run_id):
            w.repo_calls.append(("get_error_log_by_run_id", run_id))
            if run_id in runs:
                log = Mdl.AggregatedErrorLog.empty()
                log.aggregate_with(Mdl.ErrorLog(entries=[Mdl.ErrorLogEntry(message=f"err-{run_id}", created_time=1.0, severity=40)]))
                return log

        def get_plot_log(self, run_id):
            w.repo_calls.append(("get_plot_log", run_id))
            if run_id in runs or any(u.has_run() and u.run_data.run_id == run_id for u in w.units.values()):
                entry = Db.PlotLogEntry(name=f"Tag-{run_id}", value_unit=None, value_type=Db.ProcessValueType.INT,
                                        values=[Db.PlotLogEntryValue(tick_time=1.0, value_int=7, value_float=None, value_str=None)])
                return Db.PlotLog(engine_id=f"eng-{run_id}", run_id=run_id, entries={entry.name: entry})

        def __getattr__(self, name):
            raise RuntimeError(f"C32 harness: fake repository has no method {name!r}")

    class Database:
        @staticmethod
        def scoped_session():
            return None

    w.Repo, w.Database = Repo, Database
    return w


def _snapshot(w):
    return [(eid, len(u.active_users), len(u.contributors), u.method.version, len(u.method.lines)) for eid, u in w.units.items()]


def _arguments(entry, w, user_roles):
    """argument for every parameter of the endpoint, from FastAPI's resolved signature"""
    import inspect
    import fastapi
    import openpectus.aggregator.routers.auth as auth
    import openpectus.aggregator.routers.dto as Dto
    import openpectus.aggregator.deps as agg_deps
    dep = entry["dependant"]
    by_call = {auth.user_roles: user_roles, auth.user_name: "USER", auth.user_id: "user-1", agg_deps.get_aggregator: w.agg}
    kwargs = {}
    for d in dep.dependencies:
        if d.call not in by_call:
            raise RuntimeError(f"C32 harness: unknown dependency {d.call!r} of {entry['key']}")
        kwargs[d.name] = by_call[d.call]
    for p in dep.path_params:
        if p.name in ("run_id", "recent_run_id"):
            kwargs[p.name] = RUN
        elif TARGET_PARAM.match(p.name):
            kwargs[p.name] = UNIT
        else:
            kwargs[p.name] = f"{p.name}-1"
    sig = inspect.signature(entry["route"].endpoint)
    for name, p in sig.parameters.items():
        if name in kwargs:
            continue
        ann = p.annotation
        if ann is fastapi.Response or name == "response":
            kwargs[name] = fastapi.Response()
        elif ann is Dto.ExecutableCommand or name == "command":
            kwargs[name] = Dto.ExecutableCommand(command="Start", source=Dto.CommandSource.UNIT_BUTTON)
        elif ann is Dto.Method or name == "method_dto":
            kwargs[name] = Dto.Method(lines=[Dto.MethodLine(id="l1", content="Mark: B")], version=1, last_author="USER")
        elif p.default is not inspect.Parameter.empty:
            kwargs[name] = None if isinstance(p.default, fastapi.params.Param) else p.default
        else:
            raise RuntimeError(f"C32 harness: cannot provide parameter {name!r} of {entry['key']}")
    return kwargs


def _call(sym, fn, kwargs):
    """-> ("ok", value) | ("http", status) | ("exc", exception)"""
    import inspect
    from fastapi import HTTPException
    try:
        r = fn(**kwargs)
        if inspect.iscoroutine(r):
            st = Stepper(r)
            st.step()
            if st.state != "done":
                st.close()
                raise RuntimeError("C32 harness: endpoint coroutine suspended")
            if st.exception is not None:
                raise st.exception
            r = st.result
        return "ok", r
    except HTTPException as e:
        return "http", e.status_code
    except RuntimeError:
        raise
    except Exception as e:
        return "exc", e


def _contains_mark(value, marker):
    import json
    from fastapi.encoders import jsonable_encoder
    try:
        text = json.dumps(jsonable_encoder(value), default=str)
    except Exception:
        text = repr(value)
    return marker in text


def _bits(sym, prefix, n):
    return [ROLES[j] for j in range(n) if (True if sym.bool(f"{prefix}{j}") else False)]


def _pick(sym, name, options):
    """one of the shard's routes: fixed if the shard has a single one, else a solver selector (one path subtree per option)"""
    return options[0] if len(options) == 1 else sym.choice(name, options)


def _chunks(items, size):
    return [items[i:i + size] for i in range(0, len(items), size)]


def _no_task(coro, **_k):
    coro.close()


# ---------------------------------------------------------------------------------------------------
# obligations
# ---------------------------------------------------------------------------------------------------
def harness_target(sym):
    import asyncio
    entry = route_table()[_pick(sym, "route", sym.shard["routes"])]
    key = entry["key"]
    nroles = sym.shard.get("roles", 2)
    required = _bits(sym, "target_requires_", nroles)
    has_roles_param = entry["roles_param"] is not None
    user_roles = _bits(sym, "user_has_", nroles) if has_roles_param else []
    with sym.concrete():
        w = _make_world(sym, {UNIT: required}, {RUN: required})
        kwargs = _arguments(entry, w, set(user_roles))
        before = _snapshot(w)
    mod = entry["module"]
    with patched(sym, mod, "database", w.Database), patched(sym, mod, "RecentRunRepository", w.Repo), \
            patched(sym, mod, "PlotLogRepository", w.Repo), patched(sym, mod, "RecentEngineRepository", w.Repo), \
            patched(sym, asyncio, "create_task", _no_task):
        kind, val = _call(sym, entry["route"].endpoint, kwargs)
    lacks_every_role = len(required) > 0 and not any(r in required for r in user_roles)
    touched = bool(w.lookups or w.repo_calls)
    outcome = f"HTTP {val}" if kind == "http" else ("a response" if kind == "ok" else f"{type(val).__name__}")
    shape = f"{key}: target requires {required}, user has {user_roles if has_roles_param else '(route takes no roles)'} -> {outcome}"
    if kind == "http" and val == 404 and len(required) == 0:
        raise RuntimeError(f"C32 harness: fixture incomplete, {key} answers 404 for an existing open target")
    if lacks_every_role:
        # 404 ("no such target") is a refusal only if nothing but the target's own record was looked at
        only_target_record = all(c[0] == "get_by_run_id" for c in w.repo_calls)
        refused = kind == "http" and (val in (401, 403) or (val == 404 and only_target_record))
        if not has_roles_param:
            sym.check(refused or not touched, f"no-role-check|route={key}",
                      f"{shape}; the endpoint has no user_roles dependency and serves the target to everybody")
        else:
            sym.check(refused or not touched, f"not-refused|route={key}", f"{shape}; a user lacking every required role was served")
        sym.check(not w.sent, f"rpc-sent-for-unauthorised-user|route={key}", f"{shape}; rpc calls {w.sent}")
        sym.check(_snapshot(w) == before, f"unit-state-changed-by-unauthorised-user|route={key}", shape)
        if not refused:
            sym.note("served_without_touching_target", key)
    elif len(required) == 0:
        sym.check(not (kind == "http" and val in (401, 403)), f"open-target-refused|route={key}", shape)
    else:
        sym.reach()


def harness_listing(sym):
    import asyncio
    case = _pick(sym, "case", sym.shard["cases"])
    entry = route_table()[case[0]]
    key = entry["key"]
    nroles = sym.shard.get("roles", 2)
    user_roles = _bits(sym, "user_has_", nroles)
    reqs = [_bits(sym, f"target{t}_requires_", nroles) for t in range(2)]
    targets = case[1]
    with sym.concrete():
        unit_roles = {t: reqs[i] for i, t in enumerate(targets) if t.startswith("E")}
        run_roles = {t: reqs[i] for i, t in enumerate(targets) if t.startswith("R")}
        w = _make_world(sym, unit_roles, run_roles)
        kwargs = _arguments(entry, w, set(user_roles))
    mod = entry["module"]
    with patched(sym, mod, "database", w.Database), patched(sym, mod, "RecentRunRepository", w.Repo), \
            patched(sym, mod, "PlotLogRepository", w.Repo), patched(sym, mod, "RecentEngineRepository", w.Repo), \
            patched(sym, asyncio, "create_task", _no_task):
        kind, val = _call(sym, entry["route"].endpoint, kwargs)
    shape = f"{key}: user has {user_roles}, targets {dict(zip(targets, reqs))}"
    sym.check(kind == "ok", f"listing-failed|route={key}", f"{shape}: {val!r}")
    for i, t in enumerate(targets):
        listed = _contains_mark(val, t)
        if len(reqs[i]) > 0 and not any(r in reqs[i] for r in user_roles):
            sym.check(not listed, f"inaccessible-target-listed|route={key}", f"{shape}: {t} appears in the listing")
        elif len(reqs[i]) == 0 and (t != OFFLINE_UNIT or ("get_recent_engines",) in w.repo_calls):
            # (an offline unit is only expected in listings that consult the recent-engine table)
            sym.check(listed, f"open-target-not-listed|route={key}", f"{shape}: {t} is missing from the listing")
        else:
            sym.reach()


def harness_lsp(sym):
    import inspect
    import openpectus.aggregator.deps as agg_deps
    name = _pick(sym, "fn", sym.shard["fns"])
    fn = lsp_entry_points()[name]
    required = _bits(sym, "target_requires_", sym.shard.get("roles", 2))
    with sym.concrete():
        w = _make_world(sym, {UNIT: required}, {})
        kwargs = {}
        for pname, p in inspect.signature(fn).parameters.items():
            if pname == "engine_id":
                kwargs[pname] = UNIT
            elif pname == "tag_name":
                kwargs[pname] = f"Tag-{UNIT}"
            elif p.default is inspect.Parameter.empty:
                raise RuntimeError(f"C32 harness: cannot provide parameter {pname!r} of lsp_analysis.{name}")
        takes_roles = any("role" in pname for pname in kwargs) or any("role" in pname for pname in inspect.signature(fn).parameters)
    with patched(sym, agg_deps, "_server", w.agg):
        kind, val = _call(sym, fn, kwargs)
    shape = f"lsp_analysis.{name}(engine_id): unit requires {required} -> {'a value' if kind == 'ok' else val!r}"
    if len(required) > 0 and not takes_roles:
        # the method-editor service has no notion of the user's roles: whoever connects is served
        served = kind == "ok" and val is not None and val != [] and _contains_mark(val, MARK)
        sym.check(not served, f"no-role-check|lsp={name}",
                  f"{shape}; the editor service reads the unit's data for anybody who names its engine id (no roles are passed or checked)")
    else:
        sym.reach()


def _target_shards(tier):
    # several routes per shard (the route is then a solver selector): a worker process pays the import of the whole
    # aggregator once per shard, which costs more than exploring one route
    routes = [k for k, e in sorted(route_table().items()) if e["targets"]]
    if tier == "quick":
        return [{"routes": c, "roles": 2} for c in _chunks(routes, 4)]
    return [{"routes": c, "roles": 4} for c in _chunks(routes, 2)]


def _listing_shards(tier):
    cases = []
    for k, e in sorted(route_table().items()):
        if e["targets"] or e["roles_param"] is None:
            continue
        if e["module"].__name__.endswith("recent_runs"):
            cases.append([k, [RUN, RUN2]])
        else:
            cases.append([k, [UNIT, UNIT2]])
            cases.append([k, [UNIT, OFFLINE_UNIT]])
    if tier == "quick":
        return [{"cases": c, "roles": 2} for c in _chunks(cases, 2)]
    return [{"cases": [c], "roles": 3} for c in cases]


def _lsp_shards(tier):
    return [{"fns": sorted(lsp_entry_points()), "roles": 2 if tier == "quick" else 4}]


_COMMON = ["real Aggregator/FromFrontend over a fake dispatcher (records rpc_call, answers success) and a fake FrontendPublisher; asyncio.create_task is a no-op",
           "RecentRunRepository / PlotLogRepository / RecentEngineRepository / database replaced by in-memory rows (real SQLAlchemy row classes, no session); every sub-resource of a run is present",
           "endpoint functions called directly with the values FastAPI would inject (dependencies resolved from route.dependant)",
           "role sets are concrete per path, chosen through solver membership bits",
           "a request that is answered without looking up the target at all (no aggregator or repository access) is not counted as reading its data",
           "log statements removed at import"]


# ---------------------------------------------------------------------------------------------------
# offline units over the real database: required roles change between an engine's sessions
# ---------------------------------------------------------------------------------------------------
def _offline_history_case(role_sets, user):
    """Real RecentEngineRepository.store_recent_engine + SQLAlchemy + sqlite (temporary file): the same engine is stored
    once per session with that session's required roles; then the real listing route is asked. -> (listed?, stored roles)"""
    import os
    import shutil
    import tempfile
    import openpectus.aggregator.models as Mdl
    import openpectus.aggregator.data.models as Db
    import openpectus.protocol.models as P
    from openpectus.aggregator.data import database
    from openpectus.aggregator.data.repository import RecentEngineRepository
    from openpectus.aggregator.routers import process_unit
    saved = (database._engine, database._sessionmaker)
    tmp = tempfile.mkdtemp(prefix="c32db")
    try:
        database.configure_db("sqlite:///" + os.path.join(tmp, "a.sqlite3"))
        Db.DBModel.metadata.create_all(database._engine)
        for roles in role_sets:
            ed = _make_unit(Mdl, P, OFFLINE_UNIT, roles)
            ed.run_data = None
            with database.create_scope():
                RecentEngineRepository(database.scoped_session()).store_recent_engine(ed)

        class NoOnlineUnits:
            def get_all_registered_engine_data(self):
                return []
        with database.create_scope():
            units = process_unit.get_units(set(user), NoOnlineUnits())
            stored = RecentEngineRepository(database.scoped_session()).get_recent_engines()
            stored_roles = [sorted(r.required_roles or []) for r in stored]
        database._engine.dispose()
        return any(u.id == OFFLINE_UNIT for u in units), stored_roles
    finally:
        database._engine, database._sessionmaker = saved
        shutil.rmtree(tmp, ignore_errors=True)


def harness_offline_history(sym):
    universe = ROLES[:2]
    n = sym.shard["sessions"]
    role_sets = [[r for r in universe if sym.bool(f"session{k}_requires_{r}")] for k in range(n)]
    user = [r for r in universe if sym.bool(f"user_has_{r}")]
    with sym.concrete():
        listed, stored = _offline_history_case(role_sets, user)
    last = role_sets[-1]
    desc = f"required roles per session {role_sets}, user roles {user}: listed={listed}, stored roles {stored}"
    if last and not (set(last) & set(user)):
        sym.check(not listed, "offline-listing|history|listed-without-role", desc)
    if not last:
        sym.check(listed, "offline-listing|history|open-unit-hidden", desc)
    if last and (set(last) & set(user)):
        sym.check(listed, "offline-listing|history|hidden-from-role-holder", desc)


OBLIGATIONS = [
    Obligation(
        name="offline_roles_history", kind="crosshair", harness=harness_offline_history, decides="concrete",
        shards=lambda tier: [{"sessions": k} for k in ((1, 2) if tier == "quick" else (1, 2, 3))], cpu_budget={"quick": 120.0, "thorough": 600.0},
        encoded=["openpectus.aggregator.data.repository:RecentEngineRepository.store_recent_engine", "openpectus.aggregator.data.repository:RecentEngineRepository.get_recent_engines",
                 "openpectus.aggregator.routers.process_unit:get_units", "openpectus.aggregator.routers.auth:has_access"],
        symbolic="one membership bit per role for the unit's required roles in each of its sessions and for the user's roles",
        bounds={"quick": "the same engine stored 1..2 times (sessions) with independently chosen required roles over a 2-role universe, then the listing for any user role set",
                "thorough": "1..3 sessions"},
        assumptions=["decided by a concrete run per assignment of the bits: the real repository, SQLAlchemy ORM and sqlite (temporary database file) run untraced",
                     "only the offline half of the listing (no unit is online)"]),
    Obligation(
        name="target_routes", kind="crosshair", harness=harness_target, shards=_target_shards,
        cpu_budget={"quick": 80.0, "thorough": 600.0},
        encoded=["openpectus.aggregator.routers.process_unit", "openpectus.aggregator.routers.recent_runs",
                 "openpectus.aggregator.routers.lsp:get_pcode_tm_grammar", "openpectus.aggregator.routers.auth:has_access"],
        symbolic="one membership bit per role for the user's roles and one per role for the target's required roles",
        bounds={"quick": "every live route with a unit/engine/run path parameter x all 16 role assignments of a 2-role universe",
                "thorough": "same routes x all 256 role assignments of a 4-role universe"},
        assumptions=_COMMON),
    Obligation(
        name="listing_routes", kind="crosshair", harness=harness_listing, shards=_listing_shards,
        cpu_budget={"quick": 80.0, "thorough": 600.0},
        encoded=["openpectus.aggregator.routers.process_unit:get_units",
                 "openpectus.aggregator.routers.process_unit:get_all_process_values_of_all_available_engines",
                 "openpectus.aggregator.routers.recent_runs:get_recent_runs", "openpectus.aggregator.routers.auth:has_access"],
        symbolic="one membership bit per role for the user and for each of two targets",
        bounds={"quick": "every live listing route, two targets (two online units / an online and an offline unit / two runs), all 64 role assignments of a 2-role universe",
                "thorough": "same, all 512 role assignments of a 3-role universe"},
        assumptions=_COMMON),
    Obligation(
        name="lsp_entry_points", kind="crosshair", harness=harness_lsp, shards=_lsp_shards,
        cpu_budget={"quick": 60.0, "thorough": 300.0},
        encoded=["openpectus.lsp.lsp_analysis:fetch_uod_info", "openpectus.lsp.lsp_analysis:fetch_process_value",
                 "openpectus.lsp.lsp_analysis:fetch_simulated_tags"],
        symbolic="one membership bit per role for the unit's required roles",
        bounds={"quick": "every function of lsp_analysis that takes an engine_id and reads the aggregator, all required-role sets over 2 roles",
                "thorough": "same over 4 roles"},
        assumptions=_COMMON + ["the websocket endpoint /lsp/websocket itself carries no engine id; lint/hover/completion reach unit data only through these functions"]),
]

MANIFEST = {
    "level": "model_checking",
    "text": "Route table read from the live APIRouters at run time; every endpoint function with a unit/engine/run parameter, every listing endpoint and every aggregator-reading entry point of the LSP analysis module is executed symbolically (CrossHair/z3) with the user's and the target's role sets built from solver membership bits over a small role universe; exhaustive over all role assignments for every route.",
    "note": "Trusted: CrossHair bool model, z3, FastAPI's resolved dependency table, the in-memory repository fakes and the recording dispatcher. Endpoint functions are called directly (FastAPI's own request parsing/JWT decoding is outside the claim). Role universe of 2 (quick) / 4 (thorough) roles, for listings 2 / 3; one target per request (two for listings).",
    "technique": "symbolic execution of the real endpoint functions (CrossHair + z3) over a route table extracted at run time, exhaustive over role bits, counterexample replay",
}
