"""C10  Stop and Restart leave no command running and start cleanly.

Real code: the whole engine; subject = StopEngineCommand / RestartEngineCommand, CommandManager.cancel_commands /
_cancel_command / _finalize_command, Tag.on_stop (simulation), Engine._stop_interpreter, MethodManager.reset_interpreter,
EngineMessageBuilder.create_runlog_msg shape taken from Tracking.get_runlog at on_stop.

Solver variables: the tick at which the user presses Stop or Restart (every tick of the run), UOD command durations.
"""
from symx.obligation import Obligation
from props.interp_common import snapshot_runlog
from props.engine_common import engine_rig

TEMPLATES = {
    "uod_long": "Mark: M1\nCmdA\nCmdB\nMark: M2\nWait: 3s\nMark: M3\n",
    "overlap": "CmdB\nMark: M1\nCmdC\nMark: M2\nCmdA\nWait: 3s\n",
    "timed_pause": "Mark: M1\nCmdA\nPause: 3s\nMark: M2\n",
    "timed_hold": "CmdA\nHold: 3s\nMark: M1\n",
    "simulate": "Simulate: In1 = 7\nMark: M1\nCmdA\nWait: 3s\n",
    "watch_cmd": "Watch: In1 > 0\n    CmdA\n    Mark: W1\nMark: M1\nWait: 3s\n",
    # an Alarm body that starts a long-running command and is invoked again while that command still runs
    "alarm_cmd": "Alarm: In1 > 0\n    CmdA\n    Wait: 0.2s\nMark: M1\nWait: 3s\n",
}
N = 14
N_BY_TEMPLATE = {"alarm_cmd": 22}


def harness(sym):
    from openpectus.lang.exec.events import EventListener
    t = sym.shard["template"]
    kind = sym.shard["kind"]
    pc = TEMPLATES[t]
    durations = {n: sym.int(f"dur_{n}", 2, 9) for n in ("CmdA", "CmdB", "CmdC") if n in pc}
    N = N_BY_TEMPLATE.get(t, globals()["N"])
    te = sym.int("ev_tick", 1, N - 5)
    pre = sym.shard.get("pre")                    # Pause / Hold issued two ticks before the Stop / Restart
    then_start = sym.shard.get("then_start", False) and kind == "Stop"
    n_ticks = N + (10 if then_start else 0)
    started_again_at = None
    with engine_rig(sym, pc, durations=durations) as rig:
        e = rig.engine
        stop_logs = []

        class L(EventListener):
            def on_stop(self):
                # what EngineRunner sends with the run-stopped message: the run log at on_stop
                try:
                    stop_logs.append(snapshot_runlog(rig))
                except Exception as ex:
                    stop_logs.append(ex)
        with sym.concrete():
            e.emitter.add_listener(L())
        e.uod.hwl.mem["In1"] = 1
        rig.user("Start")
        run_ids = []
        done_tick = None
        marks_at_request = None
        for i in range(n_ticks):
            if pre is not None and te - 2 == i:
                rig.user(pre)
            if then_start and done_tick is not None and started_again_at is None and i >= done_tick + 2:
                refused = rig.user("Start")
                sym.check(refused is None, "start-refused-after-stop", f"Start refused {i - done_tick} ticks after Stop completed: {refused}")
                started_again_at = i
                marks_at_second_start = len(rig.marks())
                uod_at_second_start = len(rig.rec.uod)
            if te == i:
                refused = rig.user(kind)
                sym.check(refused is None, f"{kind}-refused-while-running", f"user {kind} refused at tick {i}: {refused}")
                marks_at_request = len(rig.marks())
                uod_before = len(rig.rec.uod)
            rig.tick(0.1)
            rid = rig.tag("Run Id")
            if rid is not None and (not run_ids or run_ids[-1] != rid):
                run_ids.append(rid)
            sym.check(not rig.tick_errors, "tick-raised", f"Engine.tick raised {rig.tick_errors[:1]}")
            if done_tick is None and marks_at_request is not None and len(stop_logs) > 0:
                done_tick = i
                # ---- the moment Stop/Restart has torn the run down ---------------------------------
                sym.check(len(e.uod.command_instances) == 0, f"uod-instance-left|after={kind}",
                          f"{kind} at tick {te}: command instances still held at tick {i}: {list(e.uod.command_instances)}")
                sym.check(rid is None, f"run-id-not-cleared|after={kind}", f"{kind} at tick {te}: Run Id {rid!r} when the run ended (tick {i})")
                sim = [tg.name for tg in e._iter_all_tags() if tg.simulated]
                sym.check(not sim, f"simulation-left|after={kind}", f"{kind}: tags still simulated: {sim}")
                log = stop_logs[0]
                sym.check(not isinstance(log, Exception), "runlog-not-producible-at-stop", f"{log!r}")
                if not isinstance(log, Exception):
                    started_uod = {}
                    for (_t, name, iid, ev) in rig.rec.uod:
                        if ev == "exec":
                            started_uod[iid] = name
                    for iid, name in started_uod.items():
                        items = [it for it in log if it["id"] == iid]
                        ok = any(it["state"].lower() in ("completed", "failed", "cancelled") for it in items)
                        sym.check(ok, f"uod-not-concluded-in-stop-runlog|after={kind}",
                                  f"{kind} at tick {te}: UOD command {name} started in the run is shown as {[(it['name'], it['state']) for it in items]} in the run log sent at stop")
        sym.check(done_tick is not None, f"{kind}-never-completed", f"{kind} requested at tick {te} did not complete within {N} ticks")
        if started_again_at is not None:
            # the next run starts cleanly: new run id, Running, the method runs again from its first line, nothing held over
            sym.check(len(run_ids) == 2 and run_ids[0] != run_ids[1], "second-run-id", f"Stop at {te}, Start at {started_again_at}: run ids {run_ids}")
            sym.check(rig.system_state in ("Running", "Paused", "Holding"), "second-run-not-running", f"System State {rig.system_state} after Start at tick {started_again_at}")
            again = rig.marks()[marks_at_second_start:]
            first = pc.split("\n")[0]
            if first.startswith("Mark: "):
                sym.check(again[:1] == [first[6:]], "second-run-did-not-start-at-first-line", f"Stop at {te}, Start at {started_again_at}: marks of the second run {again}")
            elif first.startswith("Cmd"):
                inits = [n for (_tt, n, _iid, ev) in rig.rec.uod[uod_at_second_start:] if ev == "init"]
                sym.check(inits[:1] == [first], "second-run-did-not-start-at-first-line", f"Stop at {te}, Start at {started_again_at}: commands started in the second run {inits}")
            sym.check(not e.has_error_state(), "second-run-error", f"{e.get_error_state_exception()!r}")
            old = {iid for (tt, _n, iid, _e) in rig.rec.uod[:uod_at_second_start]}
            late = [(tt, n, ev) for (tt, n, iid, ev) in rig.rec.uod[uod_at_second_start:] if iid in old]
            sym.check(not late, "first-run-command-active-in-second-run", f"UOD callbacks of instances of the first run after the second Start: {late}")
        # nothing of the old run keeps executing afterwards
        if done_tick is not None:
            finals = {}
            for (tt, name, iid, ev) in rig.rec.uod:
                if ev in ("init", "final"):
                    finals.setdefault(iid, []).append(ev)
            for iid, evs in finals.items():
                first_tick = min(tt for (tt, _n, i2, _e) in rig.rec.uod if i2 == iid)
                if first_tick <= done_tick:
                    sym.check(evs.count("final") == 1, f"uod-finalize-count|after={kind}", f"instance {iid}: {evs}")
            if kind == "Restart":
                sym.check(len(run_ids) == 2 and run_ids[0] != run_ids[1] and rig.tag("Run Id") == run_ids[-1],
                          "restart-run-id", f"run ids seen: {run_ids}, final {rig.tag('Run Id')!r}")
                # the method runs again from its first line: the first effect of the template re-appears
                first_mark = "M1"
                marks = rig.marks()
                if te + 9 <= N and marks_at_request is not None:
                    again = marks[marks_at_request:]
                    if "Mark: M1" in pc and pc.index("Mark: M1") < 12:
                        sym.check(first_mark in again or marks_at_request == 0, "restart-did-not-rerun-first-line",
                                  f"Restart at tick {te}: marks before {marks[:marks_at_request]}, after {again}")
            elif not then_start:
                sym.check(rig.system_state == "Stopped", "stop-state", f"after Stop System State is {rig.system_state}")
        sym.note("template", t)
        sym.note("request", kind)


def _shards(tier):
    out = [{"template": t, "kind": k} for t in TEMPLATES for k in ("Stop", "Restart")]
    if tier == "quick":
        return out + [{"template": "uod_long", "kind": "Stop", "then_start": True}, {"template": "overlap", "kind": "Restart", "pre": "Pause"}]
    for t in TEMPLATES:
        out.append({"template": t, "kind": "Stop", "then_start": True})
        for pre in ("Pause", "Hold"):
            out += [{"template": t, "kind": "Stop", "pre": pre, "then_start": True}, {"template": t, "kind": "Restart", "pre": pre}]
    return out


OBLIGATIONS = [Obligation(
    name="stop_restart", kind="crosshair", harness=harness, shards=_shards,
    cpu_budget={"quick": 400.0, "thorough": 1800.0},
    encoded=["openpectus.engine.internal_commands_impl:StopEngineCommand", "openpectus.engine.internal_commands_impl:RestartEngineCommand",
             "openpectus.engine.command_manager:CommandManager.cancel_commands", "openpectus.engine.command_manager:CommandManager._cancel_command",
             "openpectus.engine.command_manager:CommandManager._finalize_command", "openpectus.lang.exec.tags:Tag.on_stop",
             "openpectus.engine.engine:Engine._stop_interpreter", "openpectus.engine.method_manager:MethodManager.reset_interpreter"],
    symbolic="tick of the Stop/Restart request (1..9), UOD command durations 2..9 iterations each",
    bounds={"quick": "6 templates (long + overlapping UOD commands, timed Pause, timed Hold, Simulate, UOD command in a Watch) x {Stop, Restart}, 14 ticks; one Stop + new Start and one Pause-then-Restart scenario",
            "thorough": "the same, plus for every template: Stop followed by a new Start two ticks after the Stop completed (24 ticks), and Pause / Hold issued two ticks before the Stop / Restart"},
    assumptions=["one Stop/Restart per run, issued between ticks", "the run log 'sent when the run ends' is the run log obtainable in the on_stop lifetime event (what EngineRunner sends)",
                 "fake hardware; log statements removed at import"],
)]

MANIFEST = {
    "level": "model_checking",
    "text": "Bounded exhaustive symbolic execution (CrossHair/z3) of the real engine: Stop or Restart requested at a solver-chosen tick of runs with long-running/overlapping UOD commands of solver-chosen duration, timed Pause/Hold and Simulate; command instances, finalize counts, run log at stop, simulations and run ids checked.",
    "note": "Trusted: CrossHair/z3; six templates, one request per run, 14 ticks.",
    "technique": "symbolic execution of the real engine (CrossHair + z3), bounded exhaustive over stop tick and command durations, counterexample replay",
}
