"""C03  Thresholds and Wait durations are honoured.

Real code: the whole engine; subject = PInterpreter.visit (threshold loop) / _is_awaiting_threshold, the Wait branch of
visit_InterpreterCommandNode, regex.get_duration_end, BlockTimeTag / ScopeTimeTag, Engine.update_calculated_tags.

Solver variables: the threshold T (real >= 0, written into the parsed node: the interpreter reads node.threshold),
every tick increment (real in [0.1, 0.2] s: ticks are never faster than the nominal interval), an optional Hold window.
The clock value flows symbolically through `_is_awaiting_threshold`: two module-level shims in
openpectus.lang.exec.pinterpreter keep it away from str()/Decimal (C boundary):
  * while _is_awaiting_threshold runs, Block Time / Scope Time (and the threshold stored in the node) are wrapped in
    an object whose str() is an opaque token carrying the solver value,
  * `units.compare_values` -> for tokens: the exact comparison of the two quantities with the s/min/h factors;
    everything else is delegated to the real function.  (That comparisons of same-quantity values are exact is C21.)
Replays run without the shims on the unmodified code with concrete floats.
"""
from symx.obligation import Obligation
from props.engine_common import engine_rig

FACT = {"s": 1, "min": 60, "h": 3600, "L": 1, "mL": 0.001, "CV": 1}
TEMPLATES = {
    "root": "Mark: M1\n1.0 Mark: M2\nMark: M3\n",
    "block": "Mark: M0\nBlock: B1\n    Mark: M1\n    1.0 Mark: M2\n    End block\nMark: M3\n",
    "nested": "Block: B0\n    Mark: M0\n    Block: B1\n        Mark: M1\n        1.0 Mark: M2\n        End blocks\nMark: M3\n",
}
WAITS = {"w005": ("0.05s", 0.05), "w03": ("0.3s", 0.3), "w1": ("1s", 1.0), "w_min": ("0.01min", 0.6)}
N = 18


class _Token(str):
    """str stand-in carrying a solver value; only ever handed to the compare_values shim (and to log formatting)."""
    def __new__(cls, payload):
        o = super().__new__(cls, "<sym>")
        o.payload = payload
        return o


class _Val:
    """Wrapper handed to `str()` inside _is_awaiting_threshold: its __str__ returns the token."""
    def __init__(self, payload):
        self.payload = payload

    def __str__(self):
        return _Token(self.payload)


class _Shims:
    """Symbolic mode only.  While PInterpreter._is_awaiting_threshold runs, the two time clocks return a wrapper whose
    str() is an opaque token carrying the solver value, and pinterpreter.units.compare_values compares tokens exactly."""
    def __init__(self, sym):
        self.sym = sym
        self.active = sym.mode == "symbolic"

    def __enter__(self):
        if not self.active:
            return self
        import openpectus.lang.exec.pinterpreter as pi
        import openpectus.lang.exec.units as real_units
        from openpectus.lang.exec.tags_impl import BlockTimeTag, ScopeTimeTag, AccumulatorTag, AccumulatorBlockTag, AccumulatedColumnVolume
        from crosshair.libimpl.builtinslib import SymbolicValue
        from crosshair.tracers import NoTracing
        self.pi, self.orig_units = pi, pi.units
        self.classes = (BlockTimeTag, ScopeTimeTag, AccumulatorTag, AccumulatorBlockTag, AccumulatedColumnVolume)
        self.orig_get = {c: c.get_value for c in self.classes}
        self.orig_await = pi.PInterpreter._is_awaiting_threshold
        flag = {"in": 0}

        def mk(c):
            og = self.orig_get[c]

            def get_value(tag):
                v = og(tag)
                if flag["in"]:
                    with NoTracing():       # under tracing isinstance() hides CrossHair's proxy types
                        is_sym = isinstance(v, SymbolicValue)
                    if is_sym:
                        return _Val(v)
                return v
            return get_value
        for c in self.classes:
            c.get_value = mk(c)
        orig_await = self.orig_await

        def awaiting(interp, node):
            flag["in"] += 1
            try:
                return orig_await(interp, node)
            finally:
                flag["in"] -= 1
        pi.PInterpreter._is_awaiting_threshold = awaiting

        class UnitsShim:
            def __getattr__(self, name):
                return getattr(real_units, name)

            @staticmethod
            def compare_values(op, a, ua, b, ub):
                if isinstance(a, _Token) or isinstance(b, _Token):
                    va = a.payload if isinstance(a, _Token) else float(a)
                    vb = b.payload if isinstance(b, _Token) else float(b)
                    x, y = va * FACT[ua], vb * FACT[ub]
                    return {"<": x < y, "<=": x <= y, "=": x == y, "==": x == y, ">": x > y, ">=": x >= y, "!=": x != y}[op]
                return real_units.compare_values(op, a, ua, b, ub)
        pi.units = UnitsShim()
        return self

    def wrap(self, v):
        """Threshold value as stored in the node."""
        return _Val(v) if self.active else v

    def __exit__(self, *a):
        if self.active:
            self.pi.units = self.orig_units
            self.pi.PInterpreter._is_awaiting_threshold = self.orig_await
            for c in self.classes:
                c.get_value = self.orig_get[c]
        return False


def _marks_tick(history, name):
    for i, m in enumerate(history):
        if name in m:
            return i
    return None


def harness_threshold(sym):
    t = sym.shard["template"]
    base = sym.shard["base"]
    hold_at = sym.shard.get("hold_at")
    pc = TEMPLATES[t]
    if base != "min":
        pc = f"Base: {base}\n" + pc
    tmax = {"s": 1.5, "min": 0.025, "h": 0.0004}[base]
    T = sym.real("T", 0.0, tmax)
    with _Shims(sym) as shims, engine_rig(sym, pc) as rig:
        e = rig.engine
        node = [n for n in e.method_manager.program.get_all_nodes() if getattr(n, "threshold", None) is not None][0]
        node.threshold = shims.wrap(T)
        rig.user("Start")
        in_block = t != "root"
        clock_name = "Block Time" if in_block else "Scope Time"
        marks, clocks, times, states = [], [], [], []
        for i in range(N):
            dt = sym.real(f"d{i}", 0.1, 0.2)
            if hold_at is not None and i == hold_at:
                rig.user("Hold")
            if hold_at is not None and i == hold_at + 3:
                rig.user("Unhold")
            rig.tick(dt)
            sym.check(not rig.tick_errors, "tick-raised", lambda: f"Engine.tick raised {rig.tick_errors[:1]}")
            sym.check(not e.has_error_state(), "method-error", lambda: f"{t}/{base}: method error {getattr(e.get_error_state_exception(), 'message', e.get_error_state_exception())}")
            marks.append(rig.marks())
            clocks.append(rig.tag(clock_name))
            states.append(rig.system_state)
        p = _marks_tick(marks, "M1")
        s = _marks_tick(marks, "M2")
        f = FACT[base]
        sym.reach()
        if p is None:
            return
        if s is not None:
            # not early: the scope clock had reached T when M2 ran (clock read after that tick: one-tick tolerance)
            sym.check(clocks[s] >= T * f, f"started-before-threshold|scope={t}|base={base}",
                      lambda: f"{t}/{base}: M2 (threshold {sym.realize(T)} {base}) ran at tick {s} when {clock_name} was {sym.realize(clocks[s])} s")
            sym.check(s > p, "threshold-instruction-before-predecessor", lambda: f"M2 at tick {s}, M1 at tick {p}")
        # not late: first Running tick j >= p whose clock (after the tick) has reached T: M2 must have run by j + 2
        j = None
        for i in range(p, N):
            if clocks[i] >= T * f:
                j = i
                break
        # (an instruction whose predecessor ran at tick p is visited at p + 2 at the earliest -- the interpreter spends two
        #  ticks per instruction -- and an awaited threshold costs one more tick: 3 ticks of pipeline latency are allowed)
        if j is not None and j + 3 < N and all(st == "Running" for st in states[j:j + 4]):
            sym.check(s is not None and s <= j + 3, f"started-late|scope={t}|base={base}",
                      lambda: f"{t}/{base}: {clock_name} reached the threshold {sym.realize(T)} {base} at tick {j} (M1 at {p}) but M2 ran at {s}")
        sym.note("template", [t, base])


def harness_volume(sym):
    """Threshold in a volume / CV base unit: the clock is the accumulator registered for that unit (Accumulated Volume / CV at
    the root, Block Volume / CV inside a block), fed by a totalizer register whose increments are solver variables."""
    t = sym.shard["template"]
    base = sym.shard["base"]
    pc = f"Base: {base}\n" + TEMPLATES[t]
    per_l = {"L": 1.0, "mL": 1000.0, "CV": 0.5}[base]          # clock units per litre of totalizer (column volume = 2 L)
    T = sym.real("T", 0.0, 1.2 * per_l)
    clock_name = {("L", False): "Accumulated Volume", ("L", True): "Block Volume", ("mL", False): "Accumulated Volume", ("mL", True): "Block Volume",
                  ("CV", False): "Accumulated CV", ("CV", True): "Block CV"}[(base, t != "root")]
    unit_factor = {"L": 1.0, "mL": 1000.0, "CV": 1.0}[base]    # threshold units per clock-tag unit (the volume tags are in L)
    with _Shims(sym) as shims, engine_rig(sym, pc, accumulators=True) as rig:
        e = rig.engine
        node = [n for n in e.method_manager.program.get_all_nodes() if getattr(n, "threshold", None) is not None][0]
        node.threshold = shims.wrap(T)
        rig.user("Start")
        marks, clocks, states = [], [], []
        tot = 0.0
        for i in range(N):
            tot = tot + sym.real(f"v{i}", 0.0, 0.2, lo_strict=True)
            e.uod.hwl.mem["Tot"] = tot
            rig.tick(0.1)
            sym.check(not rig.tick_errors, "tick-raised", lambda: f"Engine.tick raised {rig.tick_errors[:1]}")
            sym.check(not e.has_error_state(), "method-error", lambda: f"{t}/{base}: method error {getattr(e.get_error_state_exception(), 'message', e.get_error_state_exception())}")
            marks.append(rig.marks())
            clocks.append(rig.tag(clock_name) * unit_factor)
            states.append(rig.system_state)
        p = _marks_tick(marks, "M1")
        s = _marks_tick(marks, "M2")
        sym.reach()
        if p is None:
            return
        if s is not None:
            sym.check(clocks[s] >= T, f"started-before-threshold|scope={t}|base={base}",
                      lambda: f"{t}/{base}: M2 (threshold {sym.realize(T)} {base}) ran at tick {s} when {clock_name} was {sym.realize(clocks[s])} {base}")
        j = None
        for i in range(p, N):
            if clocks[i] >= T:
                j = i
                break
        if j is not None and j + 3 < N:
            sym.check(s is not None and s <= j + 3, f"started-late|scope={t}|base={base}",
                      lambda: f"{t}/{base}: {clock_name} reached the threshold {sym.realize(T)} {base} at tick {j} (M1 at {p}) but M2 ran at {s}")
        sym.note("template", [t, base])


def harness_wait(sym):
    w = sym.shard["wait"]
    text, d = WAITS[w]
    pc = f"Mark: M1\nWait: {text}\nMark: M2\n"
    DTMAX = 0.125
    with engine_rig(sym, pc) as rig:
        wait_id = rig.method.lines[1].id
        rig.user("Start")
        marks, times = [], []
        wait_start = None
        for i in range(N + 4):
            dt = sym.real(f"d{i}", 0.1, DTMAX)
            rig.tick(dt)
            sym.check(not rig.tick_errors, "tick-raised", lambda: f"Engine.tick raised {rig.tick_errors[:1]}")
            marks.append(rig.marks())
            times.append(rig.now)
            if wait_start is None:
                ms = rig.method_state()
                if wait_id in ms.started_line_ids or wait_id in ms.executed_line_ids:
                    wait_start = rig.now        # the Wait instruction was first visited in this tick
        s = _marks_tick(marks, "M2")
        sym.reach()
        if s is None or wait_start is None:
            sym.check(False, "wait-never-finished", lambda: f"Wait: {text}: successor never ran in {N + 4} ticks")
            return
        ts = times[s]
        sym.check(ts - wait_start >= d, f"successor-before-wait-elapsed|wait={w}",
                  lambda: f"Wait: {text} started at {sym.realize(wait_start)}, successor ran at {sym.realize(ts)} ({sym.realize(ts - wait_start)} s later)")
        # late bound: the wait loop ends at the first tick >= start + d - 0.1 (the interpreter's own correction by the nominal
        # interval); the Wait then completes and its successor's effect lands two ticks later.  With nominal 0.1 s ticks this
        # is d + 0.1 ("one tick interval after"); with increments up to DTMAX it is d - 0.1 + 3 * DTMAX.  The harness can
        # only see the tick in which the Wait line became 'started', which may precede the instruction's own start time
        # by one tick: one more DTMAX of slack (the 'not early' check above is correspondingly weaker by one tick).
        sym.check(ts - wait_start <= d - 0.1 + 4 * DTMAX, f"successor-late-after-wait|wait={w}",
                  lambda: f"Wait: {text} started at {sym.realize(wait_start)}, successor ran {sym.realize(ts - wait_start)} s later")


REINVOKED = {
    "macro_twice": ("Macro: W\n    Mark: S\n    Wait: 0.5s\n    Mark: E\nCall macro: W\nCall macro: W\nMark: END\n", False),
    "alarm_twice": ("Alarm: In1 > 0\n    Mark: S\n    Wait: 0.5s\n    Mark: E\nMark: M1\n", True),
}


def harness_wait_reinvoked(sym):
    """A Wait that is executed again (second call of a macro, second run of an Alarm body) waits again in full."""
    t = sym.shard["template"]
    pc, uses_in1 = REINVOKED[t]
    d = 0.5
    n = 40
    with engine_rig(sym, pc) as rig:
        rig.engine.uod.hwl.mem["In1"] = 1
        rig.user("Start")
        seen, events = [], []       # events: (mark, tick time) in order of appearance
        for i in range(n):
            dt = sym.real(f"d{i}", 0.1, 0.125)
            rig.tick(dt)
            sym.check(not rig.tick_errors, "tick-raised", lambda: f"Engine.tick raised {rig.tick_errors[:1]}")
            marks = rig.marks()
            for m in marks[len(seen):]:
                events.append((m, rig.now))
            seen = marks
        pairs = []
        start = None
        for m, tm in events:
            if m == "S":
                start = tm
            elif m == "E" and start is not None:
                pairs.append((start, tm))
                start = None
        sym.check(len(pairs) >= 2, f"wait-not-reinvoked|template={t}", lambda: f"{t}: expected two invocations within {n} ticks, marks {seen}")
        for k, (ts, te) in enumerate(pairs[:3]):
            # the Wait starts after S ran, so E is at least d after S in every invocation
            sym.check(te - ts >= d, f"reinvoked-wait-too-short|template={t}|invocation={'first' if k == 0 else 'later'}",
                      lambda: f"{t}: invocation {k}: 'Wait: 0.5s' between S at {sym.realize(ts)} and E at {sym.realize(te)} lasted {sym.realize(te - ts)} s")


def _shards_t(tier):
    out = []
    for t in TEMPLATES:
        for base in (("s", "min") if tier == "quick" else ("s", "min", "h")):
            for h in ((None, 4) if tier == "quick" else (None, 3, 4, 5, 6)):
                out.append({"template": t, "base": base, "hold_at": h})
    return out


OBLIGATIONS = [
    Obligation(name="threshold", kind="crosshair", harness=harness_threshold, shards=_shards_t,
               cpu_budget={"quick": 300.0, "thorough": 1800.0},
               encoded=["openpectus.lang.exec.pinterpreter:PInterpreter.visit", "openpectus.lang.exec.pinterpreter:PInterpreter._is_awaiting_threshold",
                        "openpectus.lang.exec.tags_impl:BlockTimeTag.on_tick", "openpectus.lang.exec.tags_impl:ScopeTimeTag.on_tick",
                        "openpectus.engine.engine:Engine.update_calculated_tags"],
               symbolic="threshold T (real, up to 1.5 s equivalent in the base unit), 12 tick increments (reals in [0.1, 0.2] s)",
               bounds={"quick": "3 scopes (root, block, nested block) x Base {s, min} x {no hold, Hold at tick 4 for 3 ticks}, 12 ticks",
                       "thorough": "Base {s, min, h}, hold window at ticks 3..6"},
               assumptions=["floats modelled as reals", "units.compare_values replaced for solver-valued operands by the exact comparison with factors s=1, min=60, h=3600 (its exactness is property C21); str() of a solver value inside pinterpreter returns an opaque token",
                            "one-tick tolerance: the clock is read after the tick in which the instruction ran; 'not late' allows two ticks of pipeline latency after the clock reached T",
                            "volume/CV accumulators as threshold clocks: obligation volume_threshold", "fake hardware; log statements removed at import"]),
    Obligation(name="volume_threshold", kind="crosshair", harness=harness_volume, cpu_budget={"quick": 300.0, "thorough": 1800.0},
               shards=lambda tier: [{"template": t, "base": b} for t in (("root", "block") if tier == "quick" else TEMPLATES) for b in (("L", "CV") if tier == "quick" else ("L", "mL", "CV"))],
               encoded=["openpectus.lang.exec.pinterpreter:PInterpreter._is_awaiting_threshold", "openpectus.lang.exec.tags_impl:AccumulatorTag.on_tick",
                        "openpectus.lang.exec.tags_impl:AccumulatorBlockTag", "openpectus.lang.exec.tags_impl:AccumulatedColumnVolume", "openpectus.lang.exec.uod:UodBuilder.with_accumulated_volume"],
               symbolic="threshold T (real, up to 1.2 L equivalent in the base unit), the totalizer increment of every tick (real in (0, 0.2] L)",
               bounds={"quick": "scopes root and block x Base {L, CV}, 18 ticks", "thorough": "3 scopes x Base {L, mL, CV}"},
               assumptions=["UOD with a totalizer register (L) and a constant 2 L column volume registered through with_accumulated_volume / with_accumulated_cv",
                            "floats modelled as reals; compare_values replaced for solver-valued operands by the exact comparison with factors L=1, mL=0.001, CV=1 (C21)",
                            "same tolerances as obligation threshold"]),
    Obligation(name="wait", kind="crosshair", harness=harness_wait, shards=lambda tier: [{"wait": w} for w in WAITS],
               cpu_budget={"quick": 300.0, "thorough": 1200.0},
               encoded=["openpectus.lang.exec.pinterpreter:PInterpreter.visit_InterpreterCommandNode", "openpectus.lang.exec.regex:get_duration_end"],
               symbolic="20 tick increments (reals in [0.1, 0.125] s)",
               bounds={"quick": "Wait durations 0.05 s, 0.3 s, 1 s, 0.01 min; 20 ticks", "thorough": "same"},
               assumptions=["floats modelled as reals", "tick increments within [0.1, 0.125] s (nominal interval 0.1 s, never faster)",
                            "late bound = d + (tick jitter allowance): the interpreter's own 0.1 s correction is taken as the nominal interval",
                            "Wait start = the tick in which the Wait line became 'started'"]),
    Obligation(name="wait_reinvoked", kind="crosshair", harness=harness_wait_reinvoked, shards=lambda tier: [{"template": t} for t in REINVOKED],
               cpu_budget={"quick": 300.0, "thorough": 1200.0},
               encoded=["openpectus.lang.exec.pinterpreter:PInterpreter.visit_InterpreterCommandNode", "openpectus.lang.exec.pinterpreter:PInterpreter.visit_CallMacroNode",
                        "openpectus.lang.exec.pinterpreter:PInterpreter.visit_AlarmNode", "openpectus.lang.model.ast:InterpreterCommandNode"],
               symbolic="40 tick increments (reals in [0.1, 0.125] s)",
               bounds={"quick": "'Wait: 0.5s' inside a macro called twice and inside an Alarm body that fires repeatedly; 40 ticks", "thorough": "same"},
               assumptions=["floats modelled as reals", "the Wait starts after the Mark before it ran, so the Mark after it must come at least d later in every invocation"]),
]

MANIFEST = {
    "level": "model_checking",
    "text": "Symbolic execution (CrossHair/z3) of the real interpreter with the threshold and every tick increment as real-valued solver variables: the relation between scope clock and threshold at the tick the instruction runs, and between Wait duration and the successor's start, are solver-decided inequalities over all values in the stated ranges.",
    "note": "Trusted: CrossHair real-valued float model, z3; compare_values/str shims for symbolic operands (assume/guarantee with C21); 3 scopes, 12-20 ticks.",
    "technique": "symbolic execution of the real interpreter (CrossHair + z3) with symbolic thresholds and tick times, counterexample replay with IEEE floats",
}
