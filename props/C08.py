"""C08  Outputs with a safe value are safe whenever no run is progressing.

Real code: the whole engine; subject = Engine._run / _apply_safe_state / write_process_image / tick, Pause / Unpause /
Stop / Restart commands, CommandManager.execute_commands (UOD commands keep executing while paused).

Observation: the hardware write boundary -- every write_batch of the recording hardware layer and the resulting
register memory.  Register Out1 has safe value 0; Out2 has none.
Solver variables: user command before each tick (selector), duration of the method's output command (it writes a
non-safe value on every iteration), the written value (any non-zero int).
"""
from symx.obligation import Obligation
from props.engine_common import engine_rig, CONTROL

CMDS = ["none"] + CONTROL
TEMPLATES = {
    "long_output": "SetOut1: 5\nWait: 2s\nMark: A\n",
    "output_then_pause": "SetOut1: 5\nMark: A\nPause: 0.4s\nMark: B\n",
    "marks": "Mark: A\nMark: B\n",
    # the output is set, then an instruction fails: the run is paused by the error (no Pause command involved)
    "error_after_output": "SetOut1: 5\nMark: A\nFoo\nMark: B\n",
}
SAFE = 0


def harness(sym):
    t = sym.shard["template"]
    n = sym.shard.get("n", 4)
    prefix = sym.shard.get("cmds", [])
    warm = sym.shard.get("warm", 3)
    val = sym.int("out_value", 1, 1000)
    dur = sym.int("dur_SetOut1", 1, 8)
    with engine_rig(sym, TEMPLATES[t], durations={"SetOut1": dur}, out_values={"SetOut1": val}) as rig:
        e = rig.engine
        hw = e.uod.hwl
        trace = []
        # engine has started (Engine.run), no run yet
        sym.check(hw.mem.get("Out1") == SAFE, "not-safe-after-engine-start",
                  lambda: f"after Engine.run() and before any run, register Out1 holds {hw.mem.get('Out1')!r} on the hardware (writes so far {rig.rec.writes})")
        rig.tick(0.1)
        sym.check(hw.mem.get("Out1") == SAFE, "not-safe-before-first-run",
                  lambda: f"engine ticking, no run started yet: register Out1 holds {hw.mem.get('Out1')!r}")
        tainted = False
        rig.user("Start")
        trace.append("Start")
        for i in range(warm + n):
            if i >= warm:
                j = i - warm
                c = prefix[j] if j < len(prefix) else sym.choice(f"c{j}", CMDS)
                if c != "none":
                    rig.user(c)
                trace.append(c)
            else:
                trace.append("none")
            st_before = rig.system_state
            w0 = len(rig.rec.writes)
            rig.tick(0.1)
            sym.check(not rig.tick_errors, "tick-raised", lambda: f"{trace}: Engine.tick raised {rig.tick_errors[:1]}")
            st = rig.system_state
            out1 = hw.mem.get("Out1")
            # the one-tick 'Stopped' in the middle of a Restart is not "after a Stop": the statement does not cover it
            restarting = e.registry.get_running_command("Restart") is not None or st == "Restarting" or st_before == "Restarting"
            if st == "Stopped" and not restarting:
                sym.check(out1 == SAFE, f"not-safe-when-stopped|template={t}",
                          lambda: f"{trace}: System State Stopped but Out1 on the hardware is {out1!r}")
            if st == "Stopped" and st_before == "Stopped" and not restarting:
                for (_tk, regs) in rig.rec.writes[w0:]:
                    sym.check(regs.get("Out1", SAFE) == SAFE, "wrote-non-safe-while-no-run",
                              lambda: f"{trace}: no run active but the engine wrote {regs}")
            if st != "Paused":
                tainted = False
            elif not tainted:
                tick_no = e._tick_number
                cause = "uod-command-executing-during-pause" if any(tk == tick_no and ev == "exec" for (tk, _n, _i, ev) in rig.rec.uod) else "other"
                ok = True if out1 == SAFE else False
                sym.check(ok, f"not-safe-while-paused|cause={cause}",
                          lambda: f"{trace}: System State Paused (before this tick {st_before}) but Out1 on the hardware is {out1!r}")
                if not ok:
                    tainted = True      # a recorded finding made the output unsafe in this pause; later ticks only repeat it
        sym.note("trace", trace)


def _shards(tier):
    if tier == "quick":
        # + a pause that lasts a tick before the next commands (the output command keeps writing during the pause)
        return [{"template": t, "n": 3, "cmds": [a]} for t in TEMPLATES for a in CMDS] + [{"template": "long_output", "n": 4, "cmds": ["Pause", "none"]},
                                                                                            {"template": "error_after_output", "n": 6, "cmds": ["none", "none", "none", "none"]}]
    return [{"template": t, "n": 5, "cmds": [a, b]} for t in TEMPLATES for a in CMDS for b in CMDS]


OBLIGATIONS = [Obligation(
    name="safe_outputs", kind="crosshair", harness=harness, shards=_shards,
    cpu_budget={"quick": 300.0, "thorough": 2400.0},
    encoded=["openpectus.engine.engine:Engine._run", "openpectus.engine.engine:Engine._apply_safe_state", "openpectus.engine.engine:Engine.write_process_image",
             "openpectus.engine.engine:Engine.tick", "openpectus.engine.internal_commands_impl:PauseEngineCommand",
             "openpectus.engine.internal_commands_impl:UnpauseEngineCommand", "openpectus.engine.internal_commands_impl:StopEngineCommand",
             "openpectus.engine.internal_commands_impl:RestartEngineCommand", "openpectus.engine.command_manager:CommandManager.execute_commands"],
    symbolic="user command before each tick (selector over none + 7 commands), duration (1..8 iterations) and value (1..1000) of the method's output command",
    bounds={"quick": "3 templates (long-running output command; output then timed Pause; marks only), Start + 3 idle ticks + 3 command slots",
            "thorough": "same templates, 5 command slots"},
    assumptions=["register Out1 has safe value 0; the UOD's output command writes the solver-chosen value on every iteration",
                 "no user output command is issued during a pause (the exception clause of the statement is not exercised)",
                 "tick interval fixed at 0.1 s; fake recording hardware; log statements removed at import"],
)]

MANIFEST = {
    "level": "model_checking",
    "text": "Bounded exhaustive symbolic execution (CrossHair/z3) of the real engine observed at the hardware write boundary: all user command sequences of the bounded length over methods driving an output with a long-running command of solver-chosen duration and value; the register memory is compared with the safe value whenever the run is stopped or paused and at engine start.",
    "note": "Trusted: CrossHair/z3; three templates; sequences beyond the bound outside the claim.",
    "technique": "symbolic execution of the real engine (CrossHair + z3), bounded exhaustive over command sequences, hardware-write monitor, counterexample replay",
}
