"""C15  The run log is always producible and well-formed.

Real code: RuntimeInfo.get_runlog / _get_record_runlog_items / _split_states_by_instance_id, Tracking (all mark_* paths),
driven through the whole real engine.

The monitor runs after EVERY tick of every explored path of the scenario sets used for C02/C04/C10/C12 (templates
with blocks, watches, alarms, macros, waits, UOD commands; condition switch ticks, command durations, one event --
Stop / Restart / Pause / Hold / cancel / force at a solver-chosen tick and target -- as solver variables).
A second obligation makes the tick times themselves solver variables so that the ordering of start/end times is a
solver question.
"""
from symx.obligation import Obligation
from props.interp_common import TEMPLATES, run_scenario
from props.C02 import TICKS

CONCLUSIVE = ("completed", "failed", "cancelled")
EVENTS = ("Stop", "Restart", "Pause", "Hold", "cancel", "force")
NOT_LISTED = ("Stop",)     # by the statement: Stop, blank and comment lines need not appear


def _check_log(sym, log, where, symbolic_times=False):
    sym.check(not isinstance(log, Exception), "runlog-not-producible", lambda: f"{where}: get_runlog raised {log!r}")
    if isinstance(log, Exception):
        return
    ids = [it["id"] for it in log]
    sym.check(len(ids) == len(set(ids)), "duplicate-item-ids", lambda: f"{where}: {[(it['name'], it['id'][:6]) for it in log]}")
    for k, it in enumerate(log):
        if k > 0:
            sym.check(log[k - 1]["start"] <= it["start"], "not-ordered-by-start",
                      lambda: f"{where}: item {k} {it['name']} starts before its predecessor {log[k - 1]['name']}")
        if it["end"] is not None:
            sym.check(it["end"] >= it["start"], "ends-before-start", lambda: f"{where}: {it['name']} start/end out of order")
        if it["state"].lower() in CONCLUSIVE:
            sym.check(it["end"] is not None, f"conclusive-without-end|state={it['state'].lower()}", lambda: f"{where}: {it['name']} is {it['state']} but has no end time")
            sym.check(not it["cancellable"] and not it["forcible"], f"conclusive-still-offered|state={it['state'].lower()}",
                      lambda: f"{where}: {it['name']} is {it['state']} but cancellable={it['cancellable']} forcible={it['forcible']}")


def _check_completed_listed(sym, sc, pcode, where):
    """Every completed method instruction other than Stop / blank / comment appears as a completed item."""
    lines = {ln.id: ln.content.strip() for ln in sc.rig_method.lines}
    for t, ms in enumerate(sc.method_states):
        log = sc.runlogs[t]
        if isinstance(log, Exception):
            continue
        if sc.states[t] in ("Stopped", "Restarting"):
            continue        # the run log belongs to a run; after stop/restart the interpreter and its log are reset
        done = {it["name"] for it in log if it["state"].lower() == "completed"}
        for lid in ms["executed"]:
            text = lines.get(lid, "")
            if text == "" or text.startswith("#") or text.split(":")[0].strip() in NOT_LISTED:
                continue
            name = text
            sym.check(name in done, f"completed-instruction-not-in-runlog|instr={text.split(':')[0].strip()}",
                      lambda: f"{where} tick {t}: line {lid} {text!r} is executed in the method state but the run log has no completed item for it: {sorted(done)}")


def harness(sym):
    t = sym.shard["template"]
    n = sym.shard.get("n", TICKS[t])
    ev = sym.shard.get("events", ())
    sc = run_scenario(sym, t, n, event_kinds=tuple(ev), collect_runlog=True)
    sym.check(not sc.tick_errors, "tick-raised", lambda: f"Engine.tick raised {sc.tick_errors[:1]}")
    for tick, log in enumerate(sc.runlogs):
        _check_log(sym, log, f"{t} tick {tick} events {sc.events and [(e['kind'], e['tick']) for e in sc.events]}")
    _check_completed_listed(sym, sc, TEMPLATES[t], t)


def harness_generated(sym):
    """Run log of every tick for methods assembled by solver selectors (props/gen_methods.py), with an optional user event."""
    from props.gen_methods import generate, Infeasible
    sh = sym.shard
    try:
        pc = generate(sym, sh["slots"], sh["body"], sh.get("watch", False), sh.get("uod", False), sh.get("first"), sh.get("blocks", 2), tuple(sh.get("pre", ())))
    except Infeasible:
        sym.assume(False)
    n = 2 * pc.count("\n") + 3 * pc.count("Wait:") + (6 if "CmdA" in pc else 0) + 8
    sc = run_scenario(sym, "generated", n, pcode=pc, event_kinds=tuple(sh.get("events", ())), collect_runlog=True)
    sym.check(not sc.tick_errors, "tick-raised", lambda: f"{pc!r}: Engine.tick raised {sc.tick_errors[:1]}")
    for tick, log in enumerate(sc.runlogs):
        _check_log(sym, log, f"generated {pc!r} tick {tick} events {sc.events and [(e['kind'], e['tick']) for e in sc.events]}")
    _check_completed_listed(sym, sc, pc, "generated " + repr(pc))


def _gen_shards(tier):
    cfgs = []
    if tier == "quick":
        cfgs += [{"slots": 2, "body": 2, "blocks": 2, "first": "block", "uod": True}]
        cfgs += [{"slots": 2, "body": 2, "blocks": 1, "first": "watch", "watch": True, "in1": [2, 99]}]
    else:
        cfgs += [{"slots": 3, "body": 2, "blocks": 2, "first": f, "uod": True} for f in ("mark", "block", "uod")]
        cfgs += [{"slots": 2, "body": 2, "blocks": 2, "first": f, "watch": True, "in1": [a, 99]} for f in ("block", "watch") for a in (0, 4)]
        cfgs += [{"slots": 2, "body": 2, "blocks": 1, "first": "block", "uod": True, "events": [ev]} for ev in EVENTS]
    return [dict(c, pre=[p0, p1]) for c in cfgs for p0 in range(7) for p1 in range(7)]


def harness_times(sym):
    """Symbolic tick times: ordering of the items' start/end times is decided by the solver."""
    from props.engine_common import engine_rig
    from props.interp_common import snapshot_runlog
    t = sym.shard["template"]
    n = sym.shard.get("n", 10)
    with engine_rig(sym, TEMPLATES[t], durations={"CmdA": 2, "CmdB": 2, "CmdC": 1}) as rig:
        rig.engine.uod.hwl.mem["In1"] = 1
        rig.user("Start")
        for i in range(n):
            rig.tick(sym.real(f"d{i}", 0.0, 3.0, lo_strict=True))
        try:
            log = snapshot_runlog(rig)
        except Exception as ex:
            log = ex
        _check_log(sym, log, f"{t} after {n} ticks with symbolic times")


def _shards(tier):
    out = []
    for t in TEMPLATES:
        nn = min(TICKS[t], 14) if tier == "quick" else TICKS[t]
        if t in ("watch_in_alarm", "uod_in_alarm", "alarm_block"):
            nn = max(nn, 22)           # long enough for the Alarm body to be invoked again while its first invocation's children still run
        sh = {"template": t, "n": nn}
        if "In1" in TEMPLATES[t]:
            sh["in1"] = [4, 99] if tier == "quick" else None
            if sh["in1"] is None:
                del sh["in1"]
        out.append(dict(sh))
        for ev in EVENTS:
            if tier == "quick" and t not in ("wait_cmd", "watch_block", "macro", "alarm", "nested"):
                continue
            s2 = dict(sh)
            s2["events"] = [ev]
            s2["in1"] = [4, 99]
            out.append(s2)
    return out


_GENERATED = Obligation(
    name="generated_methods", kind="crosshair", harness=harness_generated, shards=_gen_shards, cpu_budget={"quick": 400.0, "thorough": 3000.0},
    encoded=["openpectus.lang.exec.runlog:RuntimeInfo.get_runlog", "openpectus.lang.exec.runlog:RuntimeInfo._get_record_runlog_items",
             "openpectus.lang.exec.tracking:Tracking.mark_started", "openpectus.lang.exec.tracking:Tracking.mark_completed"],
    symbolic="the kind of every item of the method (selectors over Mark / Wait / UOD command / Block / End block / End blocks / Watch), UOD command duration; in the event shards the kind's tick and the targeted run-log item",
    bounds={"quick": "first item a Block: 2 top-level items, bodies of 2 items, at most 2 blocks, one UOD command; first item a Watch (condition true from tick 2): 2 top-level items, one block",
            "thorough": "3 top-level items; a Watch with the condition true from tick 0 / 4; one user event (Stop, Restart, Pause, Hold, cancel, force) at a solver-chosen tick on the block-first methods with one block"},
    assumptions=["the run log is taken after every tick", "tick interval fixed; fake hardware; log statements removed at import"])

OBLIGATIONS = [_GENERATED,
    Obligation(name="every_tick", kind="crosshair", harness=harness, shards=_shards, cpu_budget={"quick": 400.0, "thorough": 2400.0},
               encoded=["openpectus.lang.exec.runlog:RuntimeInfo.get_runlog", "openpectus.lang.exec.runlog:RuntimeInfo._get_record_runlog_items",
                        "openpectus.lang.exec.tracking:Tracking.mark_started", "openpectus.lang.exec.tracking:Tracking.mark_completed",
                        "openpectus.lang.exec.tracking:Tracking.mark_cancelled", "openpectus.lang.exec.tracking:Tracking.mark_forced"],
               symbolic="UOD command durations, condition switch ticks (where not fixed by the shard), event tick and targeted run-log item",
               bounds={"quick": "14 templates without events + 5 templates x 6 event kinds, <=14 ticks, run log inspected after every tick",
                       "thorough": "14 templates x (no event + 6 event kinds), full run lengths"},
               assumptions=["tick interval fixed at 0.1 s in this obligation", "after Stop/Restart the run log of the new interpreter is judged on its own",
                            "fake hardware; log statements removed at import"]),
    Obligation(name="symbolic_times", kind="crosshair", harness=harness_times,
               shards=lambda tier: [{"template": t, "n": 10 if tier == "quick" else 14} for t in ("seq", "block", "wait_cmd", "macro")],
               cpu_budget={"quick": 300.0, "thorough": 1200.0},
               encoded=["openpectus.lang.exec.runlog:RuntimeInfo.get_runlog"],
               symbolic="every tick increment: real in (0, 3] s", bounds={"quick": "4 templates, 10 ticks", "thorough": "14 ticks"},
               assumptions=["floats modelled as reals", "run log inspected at the end of the run only"]),
]

MANIFEST = {
    "level": "model_checking",
    "text": "The run-log well-formedness monitor is evaluated after every tick of every path of bounded exhaustive symbolic explorations (CrossHair/z3) of the real engine over the C02/C04/C10/C12 scenario sets; a second obligation makes tick times symbolic so item ordering is solver-decided.",
    "note": "Trusted: CrossHair/z3; scenario catalogue and run lengths bound the claim.",
    "technique": "symbolic execution of the real engine (CrossHair + z3) with a run-log monitor at every tick, counterexample replay",
}
