"""C06  Run state and System State always agree; control commands gated; run ids fresh.

Real code: the whole engine (Engine.tick, _validate_control_command, execute_control_command_from_user,
all control command classes, CommandManager, EngineMessageBuilder.create_control_state_msg).

Solver variables: the user command issued before each tick (selector over none + 7 commands), the tick
increments (positive reals; they decide when timed Pause/Hold in the method expire).
"""
from symx.obligation import Obligation
from props.engine_common import engine_rig, CONTROL

CMDS = ["none"] + CONTROL
TEMPLATES = {
    "marks": "Mark: A\nMark: B\nMark: C\nMark: D\n",
    "pause_timed": "Mark: A\nPause: 0.5s\nMark: B\nMark: C\n",
    "hold_timed": "Hold: 0.3s\nMark: B\nPause\nMark: C\n",
    "stop": "Mark: A\nStop\nMark: B\n",
    "restart": "Mark: A\nRestart\nMark: B\n",
    "hold_pause": "Hold\nPause\nMark: A\n",
}
# idle ticks after Start before the free command slots begin, so that the slots straddle the tick in which the
# method issues its own control command (the interpreter needs 3 ticks to reach the first instruction)
WARM = {"marks": 1, "pause_timed": 3, "hold_timed": 1, "stop": 3, "restart": 3, "hold_pause": 1}


def _valid(cmd, started, paused, holding, restarting):
    """Reference validity of a user control command, from the property statement."""
    active = started and not restarting
    return {"Start": (not started) and not restarting, "Stop": active, "Restart": active,
            "Pause": active and not paused, "Unpause": active and paused,
            "Hold": active and not holding, "Unhold": active and holding}[cmd]


def harness(sym):
    from openpectus.engine.engine_message_builder import EngineMessageBuilder
    n = sym.shard.get("n", 4)
    tname = sym.shard.get("template", "marks")
    prefix = sym.shard.get("cmds", [])
    with engine_rig(sym, TEMPLATES[tname]) as rig:
        e = rig.engine
        with sym.concrete():
            mb = EngineMessageBuilder(e, "", False)
        # optional environment fault: the hardware read of one tick fails (HardwareLayerException -> error state)
        from openpectus.engine.hardware import HardwareLayerException
        hw = e.uod.hwl
        orig_read_batch = hw.read_batch
        fault = {"on": False}

        def read_batch(registers):
            if fault["on"]:
                raise HardwareLayerException("harness read fault")
            return orig_read_batch(registers)
        hw.read_batch = read_batch
        cmds = CMDS + (["Fault"] if sym.shard.get("faults") else [])
        trace = []
        run_ids = []
        restart_possible = "Restart" in TEMPLATES[tname]
        warm = WARM[tname] if prefix[:1] == ["Start"] else 0
        for i in range(n + warm):
            if 0 < i <= warm:
                c = "none"
            else:
                j = i if i == 0 else i - warm
                c = prefix[j] if j < len(prefix) else sym.choice(f"c{j}", cmds)
            trace.append(c)
            st = rig.system_state
            fault["on"] = c == "Fault"
            if c not in ("none", "Fault"):
                cs = mb.create_control_state_msg().control_state
                restarting = st == "Restarting"
                want = _valid(c, cs.is_running, cs.is_paused, cs.is_holding, restarting)
                refused = rig.user(c)
                sym.check((refused is None) == want, f"gating|cmd={c}|state={st}|accepted={refused is None}",
                          f"{trace}: user {c} in state {st} (running={cs.is_running}, paused={cs.is_paused}, holding={cs.is_holding}) "
                          f"accepted={refused is None}, expected {want}")
                if c == "Restart" and refused is None:
                    restart_possible = True
            dt = sym.real(f"d{i}", 0.0, 1.0, lo_strict=True)
            rig.tick(dt)
            sym.check(not rig.tick_errors, "tick-raised", f"{trace}: Engine.tick raised {rig.tick_errors[:1]}")
            cs = mb.create_control_state_msg().control_state
            st = rig.system_state
            if st == "Restarting":
                sym.check(restart_possible, "restarting-without-restart", f"{trace}: System State Restarting but no Restart was issued")
            else:
                want = "Stopped" if not cs.is_running else ("Paused" if cs.is_paused else ("Holding" if cs.is_holding else "Running"))
                sym.check(st == want, f"state-disagrees|tag={st}|reported={want}",
                          f"{trace}: System State tag {st}, control state says running={cs.is_running} paused={cs.is_paused} holding={cs.is_holding}")
            rid = rig.tag("Run Id")
            if cs.is_running and st != "Restarting":
                sym.check(rid is not None and rid != "", "run-id-missing", f"{trace}: run active but Run Id is {rid!r}")
                if not run_ids or run_ids[-1] != rid:
                    sym.check(rid not in run_ids, "run-id-reused", f"{trace}: run id {rid} was used before")
                    run_ids.append(rid)
            elif not cs.is_running:
                sym.check(rid is None, "run-id-not-cleared", f"{trace}: no run active but Run Id is {rid!r}")
                if run_ids and run_ids[-1] is not None:
                    run_ids.append(None)
        sym.note("trace", trace)


def _shards(tier):
    fa = CMDS + ["Fault"]
    faults = [{"n": 3, "template": "marks", "cmds": [a], "faults": True} for a in fa] + \
             [{"n": 4, "template": "marks", "cmds": ["Start", a], "faults": True} for a in fa]
    if tier == "quick":
        return faults + [{"n": 4, "template": t, "cmds": ["Start", a]} for t in TEMPLATES for a in CMDS] + \
               [{"n": 3, "template": "marks", "cmds": [a]} for a in CMDS if a != "Start"]
    faults = [{"n": 4, "template": "marks", "cmds": [a], "faults": True} for a in fa] + \
             [{"n": 5, "template": "marks", "cmds": ["Start", a], "faults": True} for a in fa]
    return faults + _shards_thorough()


def _shards_thorough():
    return [{"n": 6, "template": t, "cmds": ["Start", a, b]} for t in TEMPLATES for a in CMDS for b in CMDS] + \
           [{"n": 4, "template": "marks", "cmds": [a]} for a in CMDS if a != "Start"]


OBLIGATIONS = [Obligation(
    name="state_agreement", kind="crosshair", harness=harness, shards=_shards,
    cpu_budget={"quick": 200.0, "thorough": 1800.0},
    encoded=["openpectus.engine.engine:Engine.tick", "openpectus.engine.engine:Engine._validate_control_command",
             "openpectus.engine.engine:Engine.execute_control_command_from_user",
             "openpectus.engine.internal_commands_impl:StartEngineCommand", "openpectus.engine.internal_commands_impl:StopEngineCommand",
             "openpectus.engine.internal_commands_impl:PauseEngineCommand", "openpectus.engine.internal_commands_impl:UnpauseEngineCommand",
             "openpectus.engine.internal_commands_impl:HoldEngineCommand", "openpectus.engine.internal_commands_impl:UnholdEngineCommand",
             "openpectus.engine.internal_commands_impl:RestartEngineCommand",
             "openpectus.engine.command_manager:CommandManager._execute_internal_command",
             "openpectus.engine.engine_message_builder:EngineMessageBuilder.create_control_state_msg"],
    symbolic="user command before each tick (selector over none + 7 control commands); tick increments positive reals <= 1 s (decide expiry of timed Pause/Hold issued by the method)",
    bounds={"quick": "6 method templates (marks only; timed Pause; timed Hold + Pause; Stop; Restart; Hold+Pause) x Start + 3 free command slots, plus 3-slot sequences from the stopped state; one user command per tick",
            "thorough": "same templates, Start + 5 free command slots"},
    assumptions=["one user request per tick (validity is judged against the state observed after the previous tick)",
                 "floats modelled as reals; fake hardware; log statements removed at import",
                 "System State 'Restarting' is accepted whenever a Restart has been issued in the scenario"],
)]

MANIFEST = {
    "level": "model_checking",
    "text": "Bounded exhaustive symbolic execution (CrossHair/z3) of the real engine over all user control-command sequences of the bounded length on six method templates that issue Pause/Hold/Stop/Restart themselves; System State tag, reported control state, command gating and run ids compared after every tick against a reference written from the statement.",
    "note": "Trusted: CrossHair/z3, the reference validity predicate in props/C06.py; one user request per tick; sequences beyond the bound outside the claim.",
    "technique": "symbolic execution of the real engine (CrossHair + z3), bounded exhaustive over command sequences, symbolic tick increments, counterexample replay",
}
