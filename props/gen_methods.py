"""Generated P-code methods (used by C02 and C05) with an exact reference for the main flow.

A method is assembled from solver selectors over a small grammar:

    top level : SLOTS items, then 'Mark: END'
    item      : Mark | Wait: 0.2s | CmdA (once) | Block (depth <= 2) | Watch: In1 > 0 (once)
    block body: BODY items from  Mark | Wait | nested Block | End block | End blocks | Watch (once) ; then 'End block'
    watch body: Mark, or a Block containing a Mark and 'End block', or (inside a block) Mark + 'End block'

Every Mark and Block has a unique name.  `reference(pcode)` gives, for the main flow only, the exact order of effects
(Mark appends, first execution of the UOD command) and of block start / end events, by the statements of C02 / C05:
lines run in source order; a Block starts, runs its body, and is left through 'End block' (innermost block) or
'End blocks' (all blocks); what follows the End line inside the ended blocks never runs; what follows the block runs
after it ended.  A Watch body is a separate flow: its effects are judged by props.interp_common.check_trace.
"""
from __future__ import annotations

from props.interp_common import structure


class Infeasible(Exception):
    """the shard's fixed selector prefix does not fit this grammar position (nothing to explore)"""


def generate(sym, slots: int, body: int, allow_watch: bool, allow_uod: bool, first=None, max_blocks: int = 3, pre=(), alarm=False):
    """-> pcode.  `first`: kind of the first top-level item (shard), or None; `pre`: values of the first selector draws (shard)."""
    cnt = {"mark": 0, "block": 0, "watch": 0, "uod": 0, "draw": 0}
    lines = []

    def mark(ind, prefix="M"):
        cnt["mark"] += 1
        lines.append("    " * ind + f"Mark: {prefix}{cnt['mark']}")

    def watch(ind, in_block):
        cnt["watch"] += 1
        kw = "Watch"
        if alarm:
            kw = ("Watch", "Alarm")[sym.index(f"wkind{cnt['watch']}", 2)]
        lines.append("    " * ind + f"{kw}: In1 > 0")
        opts = ["mark", "block"] + (["mark_end"] if in_block else [])
        w = opts[sym.index(f"wbody{cnt['watch']}", len(opts))]
        if w == "mark":
            mark(ind + 1, "W")
        elif w == "block":
            cnt["block"] += 1
            lines.append("    " * (ind + 1) + f"Block: WB{cnt['block']}")
            mark(ind + 2, "W")
            lines.append("    " * (ind + 2) + "End block")
        else:
            mark(ind + 1, "W")
            lines.append("    " * (ind + 1) + "End block")

    def item(ind, depth, label, kinds):
        d = cnt["draw"]
        cnt["draw"] += 1
        if d < len(pre):
            if pre[d] >= len(kinds):
                raise Infeasible()
            k = kinds[pre[d]]
        else:
            k = kinds[sym.index(label, len(kinds))]
        emit(k, ind, depth)

    def emit(k, ind, depth):
        if k == "mark":
            mark(ind)
        elif k == "wait":
            lines.append("    " * ind + "Wait: 0.2s")
        elif k == "uod":
            cnt["uod"] += 1
            lines.append("    " * ind + "CmdA")
        elif k == "watch":
            watch(ind, depth > 0)
        elif k == "end_block":
            lines.append("    " * ind + "End block")
        elif k == "end_blocks":
            lines.append("    " * ind + "End blocks")
        elif k == "block":
            cnt["block"] += 1
            name = f"B{cnt['block']}"
            lines.append("    " * ind + f"Block: {name}")
            for j in range(body):
                item(ind + 1, depth + 1, f"{name}_item{j}", kinds_for(depth + 1))
            lines.append("    " * (ind + 1) + "End block")

    def kinds_for(depth):
        ks = ["mark", "wait"]
        if allow_uod and cnt["uod"] == 0:
            ks.append("uod")
        if depth < 2 and cnt["block"] < max_blocks:
            ks.append("block")
        if depth > 0:
            ks += ["end_block", "end_blocks"]
        if allow_watch and cnt["watch"] == 0:
            ks.append("watch")
        return ks

    for i in range(slots):
        if i == 0 and first is not None:
            emit(first, 0, 0)
        else:
            item(0, 0, f"top_item{i}", kinds_for(0))
    lines.append("Mark: END")
    return "\n".join(lines) + "\n"


def reference(pcode: str):
    """-> (effects, block_events) of the main flow: effects = [("mark", name) | ("uod", name)], block_events = [("start"|"end", name)]."""
    root, _lines = structure(pcode)
    effects, events = [], []

    class Leave(Exception):
        def __init__(self, levels):
            self.levels = levels          # number of blocks still to leave (None = all)

    def run(node, active):
        for ch in node.children:
            if ch.name == "Mark":
                effects.append(("mark", ch.arg))
            elif ch.name in ("CmdA", "CmdB", "CmdC"):
                effects.append(("uod", ch.name))
            elif ch.name == "Block":
                events.append(("start", ch.arg))
                try:
                    run(ch, active + [ch.arg])
                    return "stuck"        # a block without an End line is never left: nothing after it runs
                except Leave as lv:
                    events.append(("end", ch.arg))
                    if lv.levels is None:
                        if active:
                            raise
                    elif lv.levels > 1:
                        raise Leave(lv.levels - 1)
            elif ch.name == "End block":
                if active:
                    raise Leave(1)
            elif ch.name == "End blocks":
                if active:
                    raise Leave(None)
            # Wait: no effect; Watch / Alarm / Macro: separate flows
        return "done"
    run(root, [])
    return effects, events


def check_reference(sym, sc, pcode: str, tag: str):
    """Observed main-flow effects / block events are a prefix of the reference, and all of it once 'END' was marked."""
    root, lines = structure(pcode)
    effects, events = reference(pcode)
    main_marks = {n for (k, n) in effects if k == "mark"}
    all_main_marks = set()

    def collect(node):            # every Mark of the main flow, also the ones the reference skips
        for ch in node.children:
            if ch.name == "Mark":
                all_main_marks.add(ch.arg)
            elif ch.name == "Block":
                collect(ch)
    collect(root)
    main_blocks = set()

    def collect_blocks(node):
        for ch in node.children:
            if ch.name == "Block":
                main_blocks.add(ch.arg)
                collect_blocks(ch)
    collect_blocks(root)
    got_marks = [m for m in (sc.marks_by_tick[-1] if sc.marks_by_tick else []) if m in all_main_marks]
    want_marks = [n for (k, n) in effects if k == "mark"]
    finished = "END" in got_marks
    sym.check(got_marks == want_marks[:len(got_marks)], f"{tag}|generated|main-flow-marks-differ",
              lambda: f"{pcode!r}: main-flow marks {got_marks}, reference {want_marks}")
    if finished:
        sym.check(got_marks == want_marks, f"{tag}|generated|main-flow-marks-incomplete", lambda: f"{pcode!r}: main-flow marks {got_marks}, reference {want_marks}")
    if tag == "C05":
        got_ev = [(k, n) for (_t, k, n) in sc.block_events if n in main_blocks]
        sym.check(got_ev == events[:len(got_ev)], "C05|generated|main-flow-block-events-differ",
                  lambda: f"{pcode!r}: block events of the main flow {got_ev}, reference {events}")
        if finished:
            sym.check(got_ev == events, "C05|generated|main-flow-block-events-incomplete", lambda: f"{pcode!r}: block events {got_ev}, reference {events}")
    if ("uod", "CmdA") in effects and finished:
        execs = [x for x in sc.uod if x[1] == "CmdA" and x[3] == "init"]
        sym.check(len(execs) == 1, f"{tag}|generated|uod-start-count", lambda: f"{pcode!r}: CmdA init callbacks {execs}")
    sym.note("generated", pcode)
    return finished
