"""C35  Error-log aggregation loses nothing and counts repeats.

Real code: openpectus.aggregator.models.AggregatedErrorLog.aggregate_with (+ AggregatedErrorLogEntry.from_entry).

Solver variables: per engine error-log entry the message (selector over two texts), the severity (int out of two
levels) and the created_time (unconstrained real).  The entries arrive in batches (one aggregate_with call per batch).

Reference fold (from the statement, independent of batch boundaries): the flat entry sequence is cut into maximal
runs of consecutive entries with equal (message, severity).  One aggregated entry per run, in order.  Inside a run an
entry whose time is greater than every earlier time of the run is an occurrence, an entry whose time equals the
latest time is a redelivery (not counted).  An entry whose time is *earlier* than the run's latest is not covered by
the statement: both "ignored" and "counted" are accepted for it.
"""
from symx.obligation import Obligation
from props.agg_common2 import unvalidated_init

MESSAGES = ["pump failed", "valve stuck"]
SEVERITIES = (30, 40)     # logging.WARNING / logging.ERROR


def harness(sym):
    import openpectus.aggregator.models as Mdl
    sizes = sym.shard["sizes"]
    msg_prefix = sym.shard.get("msgs", [])
    with sym.concrete():
        log = Mdl.AggregatedErrorLog.empty()
    flat = []      # (message, severity, time) in arrival order
    with unvalidated_init(sym, Mdl.AggregatedErrorLogEntry):
        k = 0
        for b, n in enumerate(sizes):
            batch = []
            for j in range(n):
                msg = MESSAGES[msg_prefix[k]] if k < len(msg_prefix) else sym.choice(f"msg{k}", MESSAGES)
                sev = sym.int(f"sev{k}", 0, 1) * 10 + 30
                t = sym.real(f"t{k}")
                with sym.concrete():
                    batch.append(Mdl.ErrorLogEntry.model_construct(message=msg, severity=sev, created_time=t))
                flat.append((msg, sev, t))
                k += 1
            with sym.concrete():
                error_log = Mdl.ErrorLog.model_construct(entries=batch)
            try:
                log.aggregate_with(error_log)
            except Exception as ex:
                sym.check(False, f"raises|aggregate_with|{type(ex).__name__}", f"aggregate_with raised {type(ex).__name__}: {ex}")

    # ---- reference fold -------------------------------------------------------------------------
    runs = []      # [message, severity, latest, occurrences, redelivered, uncovered]
    for msg, sev, t in flat:
        if runs and runs[-1][0] == msg and runs[-1][1] == sev:
            r = runs[-1]
            if t > r[2]:
                r[2] = t
                r[3] += 1
            elif t == r[2]:
                r[4] += 1
            else:
                r[5] += 1
        else:
            runs.append([msg, sev, t, 1, 0, 0])
    shape = f"batches {sizes}"
    out = log.entries
    sym.check(len(out) == len(runs), "group-count",
              f"{shape}: {len(out)} aggregated entries for {len(runs)} runs of distinct consecutive (message, severity)")
    accounted = 0
    for i, r in enumerate(runs):
        e = out[i]
        sym.check(e.message == r[0] and e.severity == r[1], "group-order",
                  f"{shape}: aggregated entry {i} is not the {i}-th distinct (message, severity) of the input")
        sym.check(e.created_time == r[2], "latest-time", f"{shape}: aggregated entry {i} does not carry the latest time of its run")
        sym.check(e.occurrences >= r[3], "occurrences-too-low|entry-lost",
                  f"{shape}: aggregated entry {i} counts fewer occurrences than entries with increasing time were merged")
        sym.check(e.occurrences <= r[3] + r[5], "occurrences-too-high|redelivery-counted",
                  f"{shape}: aggregated entry {i} counts more occurrences than entries were merged (redelivery counted?)")
        accounted += r[3] + r[4] + r[5]
    sym.check(accounted == len(flat), "accounting", f"{shape}: reference accounting broken")
    sym.note("runs", len(runs))


def _shards(tier):
    """<=2 (quick) / <=3 (thorough) aggregate_with calls of <=3 entries each, <=5 / <=7 entries in total; for the larger
    totals the leading message selectors are fixed per shard so that every shard stays small."""
    import itertools
    calls, total = (2, 5) if tier == "quick" else (3, 7)
    out = []
    for sizes in itertools.product(range(4), repeat=calls):
        n = sum(sizes)
        if n > total:
            continue
        fixed = 0 if n <= 3 else (2 if n <= 5 else 4)
        for ms in itertools.product((0, 1), repeat=fixed):
            out.append({"sizes": list(sizes), "msgs": list(ms)})
    return out


OBLIGATIONS = [Obligation(
    name="aggregate_fold", kind="crosshair", harness=harness, shards=_shards,
    cpu_budget={"quick": 80.0, "thorough": 1500.0},
    encoded=["openpectus.aggregator.models:AggregatedErrorLog.aggregate_with",
             "openpectus.aggregator.models:AggregatedErrorLogEntry.from_entry"],
    symbolic="per entry: message selector over 2 texts, severity out of 2 levels (symbolic int), created_time (unconstrained real)",
    bounds={"quick": "<=2 aggregate_with calls x <=3 entries each, <=5 entries in total, starting from the empty log",
            "thorough": "<=3 calls x <=3 entries each, <=7 entries in total"},
    assumptions=["AggregatedErrorLogEntry(...) stores its fields unvalidated during the symbolic run (pydantic-core is a C boundary); replays use the real constructor",
                 "ErrorLogEntry/ErrorLog built with model_construct",
                 "floats modelled as reals",
                 "an entry with the same message and severity but an EARLIER time than the run's latest is outside the statement: ignoring or counting it are both accepted",
                 "log statements removed at import"],
)]

MANIFEST = {
    "level": "model_checking",
    "text": "Bounded exhaustive symbolic execution (CrossHair/z3) of the real AggregatedErrorLog.aggregate_with against a reference fold written from the statement: up to 2 calls x 3 entries (quick, at most 5 entries) / 3 calls x 3 entries (thorough, at most 7 entries) with solver-chosen message, severity and unconstrained real created_time per entry.",
    "note": "Trusted: CrossHair's int/real models (floats treated as reals), z3, the reference fold in props/C35.py. AggregatedErrorLogEntry's validating constructor is bypassed during the symbolic run (pydantic-core C boundary) and used on replay. Entries older than their group's latest time are outside the statement and accepted either way. Longer sequences are outside the claim.",
    "technique": "symbolic execution of the real code (CrossHair + z3) against a reference fold, bounded exhaustive, counterexample replay",
}
