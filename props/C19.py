"""C19  Method analysis never crashes and flags undefined names.

Real code: openpectus.lang.exec.analyzer.SemanticCheckAnalyzer.analyze and its nine member analyzers,
openpectus.lsp.lsp_analysis.build_tags / build_commands / analyze / lint, the real parser and the real
Levenshtein.ratio.

Solver variables: per varied line a selector over the line catalogue (templates x name slot), and one membership bit
per candidate tag / command deciding which names are defined in the UodDefinition the analysis input is built from
(exactly as the aggregator builds it: build_tags/build_commands on a protocol UodDefinition).

Oracle (from the statement only):
  * analyze returns (no exception);
  * every line that references a tag that is not defined, every command line whose command is not defined, and every
    incomplete condition / assignment has at least one item of type ERROR located on that line;
  * lint shows the same per-line diagnostics (one diagnostic per analyzer item), i.e. it does not collapse into the
    single generic diagnostic.
"""
from symx.obligation import Obligation

TAG_CANDIDATES = [("Run Time", "s"), ("FT01", "L/h"), ("Reset", None)]
CMD_CANDIDATES = ["Reset", "Wait", "Stop"]
# names put into the name slot of a tag-referencing line: the candidates (defined or not, by the bits), close
# misspellings of candidates, an unrelated long name, a short name
VERY_LONG = "This line is a free text note that somebody forgot to mark as a comment"   # far longer than any defined name
TAG_NAMES = ["Run Time", "FT01", "Reset", "Run Tim", "FT02", "Zebra Quux", "XY", VERY_LONG, "Q"]
CMD_NAMES = ["Reset", "Wait", "Stop", "Rest", "Waitt", "Zebra Quux", "XY", VERY_LONG, "Q"]

# (template id, text with {n}, kind, always_error)   kind: "tag" (references tag {n}) | "cmd" ({n} is a command name) | None
# always_error: the line is an incomplete condition / assignment whatever the sets are
TEMPLATES = [
    ("Watch:N>1s", "Watch: {n} > 1 s", "tag", False),
    ("Watch:N>1", "Watch: {n} > 1", "tag", False),
    ("Watch:N=Open", "Watch: {n} = Open", "tag", False),
    ("Watch:N>5kg", "Watch: {n} > 5 kg", "tag", False),
    ("Watch:N>5xyz", "Watch: {n} > 5 xyz", "tag", False),
    ("Alarm:N<=2.5L/h", "Alarm: {n} <= 2.5 L/h", "tag", False),
    ("Watch:N>", "Watch: {n} >", "tag", True),
    ("Watch:N", "Watch: {n}", "tag", True),
    ("Alarm:N", "Alarm: {n}", "tag", True),
    ("Simulate:N=5L/h", "Simulate: {n} = 5 L/h", "tag", False),
    ("Simulate:N=Open", "Simulate: {n} = Open", "tag", False),
    ("Simulate:N=", "Simulate: {n} =", "tag", True),
    ("Simulate:N", "Simulate: {n}", "tag", True),
    ("Simulateoff:N", "Simulate off: {n}", "tag", False),
    ("Watch:>1", "Watch: > 1", None, True),
    ("Watch", "Watch", None, True),
    ("Watch:", "Watch: ", None, True),
    ("Alarm", "Alarm", None, True),
    ("Simulate", "Simulate", None, True),
    ("Simulate:=5", "Simulate: = 5", None, True),
    ("Simulateoff", "Simulate off", None, True),
    ("Cmd", "{n}", "cmd", False),
    ("Cmd:5s", "{n}: 5 s", "cmd", False),
    ("Cmd:x", "{n}: x", "cmd", False),
    ("Mark", "Mark: B", None, False),
    ("blank", "", None, False),
]


def catalogue():
    out = []
    for tid, text, kind, always in TEMPLATES:
        names = TAG_NAMES if kind == "tag" else CMD_NAMES if kind == "cmd" else [None]
        for n in names:
            out.append((tid, text.format(n=n) if n is not None else text, kind, always, n))
    return out


def _name_class(name, defined):
    from Levenshtein import ratio
    if name in defined:
        return "defined"
    if not defined:
        return "undefined-nothing-defined"
    if len(name) <= 2:
        return "undefined-short"
    return "undefined-similar" if max(ratio(name, d) for d in defined) > 0.7 else "undefined-no-similar"


def _site(exc):
    """qualified name of the innermost analyzer / lsp_analysis function on the traceback"""
    tb, site = exc.__traceback__, "?"
    while tb is not None:
        fn = tb.tb_frame.f_code.co_filename
        if fn.endswith("lang/exec/analyzer.py") or fn.endswith("lsp/lsp_analysis.py"):
            site = tb.tb_frame.f_code.co_qualname
        tb = tb.tb_next
    return site


def harness(sym):
    with sym.concrete():        # imports under tracing are very slow
        import openpectus.protocol.models as Mdl
        from openpectus.lang.exec.analyzer import SemanticCheckAnalyzer, AnalyzerItemType
        from openpectus.lang.exec import regex
        from openpectus.lang.model.parser import ParserMethod, create_method_parser
        from openpectus.lsp import lsp_analysis
        from pylsp.workspace import Document, Workspace
        from pylsp.lsp import DiagnosticSeverity
        import Levenshtein  # noqa
    cat = catalogue()
    nvar = sym.shard.get("lines", 1)
    first = [c for c in cat if c[0] == sym.shard["template"]]
    second = [c for c in cat if c[4] in (None, "FT01", "Zebra Quux", "Wait", "Rest")
              and c[0] in ("Watch:N>1s", "Simulate:N=5L/h", "Simulateoff:N", "Watch", "Cmd:5s", "Mark", "blank")]
    if "name" in sym.shard:
        first = first[sym.shard["name"]:sym.shard["name"] + 1]
    chosen = [first[sym.index("line1", len(first))]]
    if nvar > 1:
        chosen.append(second[sym.index("line2", len(second))])
    lines = ["Mark: A"] + [c[1] for c in chosen]
    need_tags = any(c[2] == "tag" or c[3] for c in chosen)
    need_cmds = any(c[2] == "cmd" for c in chosen)
    tag_bits = [bool(sym.bool(f"tag_defined_{k}")) if need_tags else True for k in range(len(TAG_CANDIDATES))]
    cmd_bits = [bool(sym.bool(f"cmd_defined_{k}")) if need_cmds else True for k in range(len(CMD_CANDIDATES))]
    tags_defined = [t for t, b in zip(TAG_CANDIDATES, tag_bits) if b]
    cmds_defined = [c for c, b in zip(CMD_CANDIDATES, cmd_bits) if b]
    validators = {"Reset": None, "Wait": "RNAP-v1-" + regex.REGEX_DURATION, "Stop": "RNAP-v1-^$"}
    with sym.concrete():
        uod_def = Mdl.UodDefinition(
            commands=[Mdl.CommandDefinition(name=c, validator=validators[c], docstring="") for c in cmds_defined if c == "Reset"],
            system_commands=[Mdl.CommandDefinition(name=c, validator=validators[c], docstring="") for c in cmds_defined if c != "Reset"]
            + [Mdl.CommandDefinition(name=n, validator=None, docstring="") for n in ("Watch", "Alarm", "Mark", "Simulate", "Simulate off")],
            tags=[Mdl.TagDefinition(name=t, unit=u) for t, u in tags_defined])
        pcode = "\n".join(lines)
        method = ParserMethod.from_pcode(pcode)
    tag_names = [t for t, _ in tags_defined]

    # ---- analyzer, input built as the aggregator builds it -----------------------------------------------------
    tags = lsp_analysis.build_tags(uod_def)
    commands = lsp_analysis.build_commands(uod_def)
    program = create_method_parser(method, uod_command_names=[]).parse_method(method)
    analyzer = SemanticCheckAnalyzer(tags, commands)
    try:
        analyzer.analyze(program)
    except Exception as e:  # noqa
        sym.check(False, f"raises|{_site(e)}|{type(e).__name__}", f"method {lines!r}, tags {tag_names}, commands {cmds_defined}: {e!r}")
        return
    sym.reach()
    nodes = program.get_all_nodes()[1:]

    def has_error(i):
        for it in analyzer.items:
            if it.type == AnalyzerItemType.ERROR and (it.node is nodes[i] or it.range.start.line == i):
                return True
        return False

    expected = []
    for i, (tid, text, kind, always, name) in enumerate(chosen, start=1):
        why = None
        if always:
            why = "incomplete"
        elif kind == "tag" and name not in tag_names:
            why = "tag-" + _name_class(name, tag_names)
        elif kind == "cmd" and name not in cmds_defined:
            why = "command-" + _name_class(name, cmds_defined)
        if why is not None:
            expected.append(i)
            sym.check(has_error(i), f"no-error-item|line={tid}|{why}",
                      f"method {lines!r}, tags {tag_names}, commands {cmds_defined}: no ERROR item on line {i}; items {[(it.id, it.range.start.line) for it in analyzer.items]}")

    # ---- lint: same diagnostics, not the generic one --------------------------------------------------------------
    with sym.concrete():
        doc = Document(uri="file://workspace/uri", workspace=Workspace(root_uri="", endpoint=None, config=None), source=pcode)
        lsp_analysis.create_analysis_input.cache_clear()
    old = lsp_analysis.fetch_uod_info
    lsp_analysis.fetch_uod_info = lambda _id: uod_def
    try:
        try:
            diags = lsp_analysis.lint(doc, "engine-c19")
        except Exception as e:  # noqa
            sym.check(False, f"raises|{_site(e)}|{type(e).__name__}", f"lint of {lines!r}: {e!r}")
            return
    finally:
        lsp_analysis.fetch_uod_info = old
        with sym.concrete():
            lsp_analysis.create_analysis_input.cache_clear()
    sym.check(len(diags) == len(analyzer.items), "lint|diagnostics-differ-from-analyzer-items",
              f"lint of {lines!r}: {len(diags)} diagnostics, analyzer has {len(analyzer.items)} items: {[d.get('code') for d in diags]}")
    for i in expected:
        sym.check(any(d.get("severity") == DiagnosticSeverity.Error and d["range"]["start"]["line"] == i for d in diags),
                  "lint|no-error-diagnostic-on-line", f"lint of {lines!r}: no Error diagnostic on line {i}")
    sym.note("method", lines)


def _shards(tier):
    if tier == "quick":
        return [{"lines": 1, "template": t[0]} for t in TEMPLATES]
    sh = []
    for t in TEMPLATES:
        n = len(TAG_NAMES) if t[2] == "tag" else len(CMD_NAMES) if t[2] == "cmd" else 1
        sh += [{"lines": 2, "template": t[0], "name": k} for k in range(n)]
    return sh


OBLIGATIONS = [Obligation(
    name="analyze_and_lint", kind="crosshair", harness=harness, shards=_shards,
    cpu_budget={"quick": 60.0, "thorough": 900.0},
    encoded=["openpectus.lang.exec.analyzer:SemanticCheckAnalyzer.analyze", "openpectus.lang.exec.analyzer:ConditionCheckAnalyzer.analyze_condition",
             "openpectus.lang.exec.analyzer:SimulateCheckAnalyzer", "openpectus.lang.exec.analyzer:CommandCheckAnalyzer.check_command_node",
             "openpectus.lsp.lsp_analysis:build_tags", "openpectus.lsp.lsp_analysis:build_commands", "openpectus.lsp.lsp_analysis:lint",
             "openpectus.lsp.lsp_analysis:analyze"],
    symbolic="line selectors over a catalogue of 26 templates x name slot (7 tag names / 7 command names: defined candidates, close misspellings, "
             "unrelated long name, a 70-character free-text name, two- and one-character names); membership bits: which of 3 candidate tags and 3 candidate commands are defined",
    bounds={"quick": "method = 'Mark: A' + 1 catalogue line; all 8 tag sets / 8 command sets (incl. empty)",
            "thorough": "method = 'Mark: A' + 1 catalogue line + 1 line of a 12 line sub-catalogue (tag / command / incomplete / neutral lines); all 8 x 8 sets"},
    assumptions=["all solver variables are discrete (selectors, membership bits): the solver enumerates and prunes, every path is one concrete configuration",
                 "Levenshtein.ratio, the parser's regular expressions and pint run for real on the concrete names of each path",
                 "analysis input built with lsp_analysis.build_tags/build_commands from a protocol UodDefinition; lint with fetch_uod_info replaced as in the repo's tests",
                 "membership bits of a kind are drawn only when the method has a line of that kind",
                 "log statements removed at import"],
)]

MANIFEST = {
    "level": "model_checking",
    "text": "Bounded exhaustive exploration (CrossHair/z3 as path enumerator) of the real SemanticCheckAnalyzer.analyze and lsp_analysis.lint on methods assembled from a catalogue of 26 line templates x name slots, against every subset of 3 candidate tags and 3 candidate commands (membership bits); asserts that analysis returns, that every undefined tag / command reference and every incomplete condition has an ERROR item on its line, and that lint reports one diagnostic per analyzer item.",
    "note": "All solver variables are discrete (selectors and membership bits): each explored path is one concrete configuration; Levenshtein.ratio, the parser regexes and pint run for real. Methods of more than 1 (quick) / 2 (thorough) varied lines, names outside the catalogue and larger name sets are outside the claim.",
    "technique": "symbolic execution of the real code (CrossHair + z3) over selector and membership-bit variables, bounded exhaustive, counterexample replay",
}
