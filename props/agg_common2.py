"""Shared fixtures for C31..C35 (aggregator: method save, access control, web push, CSV export, error log)."""
from __future__ import annotations

import contextlib


@contextlib.contextmanager
def unvalidated_init(sym, *classes):
    """pydantic-core (C) rejects solver-backed scalars.  While the harness runs symbolically, `Cls(**fields)` of the
    given pydantic models stores the fields as given (= `model_construct`) instead of passing them through the C
    validator.  On replay (concrete values) nothing is replaced: the real validating constructor runs."""
    if sym.mode != "symbolic":
        yield
        return

    def make(cls):
        def __init__(self, **data):
            m = cls.model_construct(**data)
            object.__setattr__(self, "__dict__", m.__dict__)
            object.__setattr__(self, "__pydantic_fields_set__", m.__pydantic_fields_set__)
            object.__setattr__(self, "__pydantic_extra__", getattr(m, "__pydantic_extra__", None))
            object.__setattr__(self, "__pydantic_private__", getattr(m, "__pydantic_private__", None))
        return __init__

    with sym.concrete():
        saved = []
        for cls in classes:
            saved.append((cls, "__init__" in cls.__dict__, cls.__dict__.get("__init__")))
            cls.__init__ = make(cls)
    try:
        yield
    finally:
        with sym.concrete():
            for cls, had, old in saved:
                if had:
                    cls.__init__ = old
                else:
                    del cls.__init__


def expect(sym, cond, signature, detail=""):
    """sym.check that reports whether the assertion held.  (For a signature recorded as a known finding sym.check returns
    instead of ending the path; assertions that only make sense if this one held must then be skipped.)"""
    if cond:
        sym.check(True, signature)
        return True
    sym.check(False, signature, detail)
    return False


@contextlib.contextmanager
def patched(sym, obj, name, value):
    with sym.concrete():
        had = name in getattr(obj, "__dict__", {})
        old = getattr(obj, name, None)
        setattr(obj, name, value)
    try:
        yield
    finally:
        with sym.concrete():
            if had or not isinstance(obj, type):
                setattr(obj, name, old)
            else:
                delattr(obj, name)


# ---------------------------------------------------------------------------------------------------
# stepping coroutines by hand
# ---------------------------------------------------------------------------------------------------
class Suspend:
    """`await Suspend()` hands control back to whoever is stepping the coroutine (one await point)."""

    def __await__(self):
        yield self


class MiniLoop:
    """The least an asyncio.Future / asyncio.Lock needs from 'the running loop' while coroutines are stepped by hand
    (only used if the code under test awaits asyncio primitives, e.g. a lock)."""

    def __init__(self):
        self.ready = []

    def get_debug(self):
        return False

    def create_future(self):
        import asyncio
        return asyncio.Future(loop=self)

    def call_soon(self, cb, *args, context=None):
        self.ready.append((cb, args))

    call_soon_threadsafe = call_soon

    def run_ready(self):
        while self.ready:
            cb, args = self.ready.pop(0)
            cb(*args)


class Stepper:
    """One coroutine advanced by hand.  state: new | suspended (at a Suspend point) | blocked (on a future) | done"""

    def __init__(self, coro):
        self.coro = coro
        self.state = "new"
        self.future = None
        self.result = None
        self.exception = None

    def runnable(self):
        return self.state == "blocked" and self.future.done()

    def step(self):
        try:
            y = self.coro.send(None)
        except StopIteration as s:
            self.state, self.result = "done", s.value
            return
        except Exception as e:
            self.state, self.exception = "done", e
            return
        if isinstance(y, Suspend):
            self.state = "suspended"
        else:
            self.state, self.future = "blocked", y
            if getattr(y, "_asyncio_future_blocking", None):
                y._asyncio_future_blocking = False

    def close(self):
        if self.state != "done":
            self.coro.close()
            self.state = "done"
