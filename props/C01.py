"""C01  Live method edits never re-run or lose run progress.

Real code: the whole engine; subject = Engine.set_method, MethodManager.merge_method / _create_interpreter_merge_state /
_create_interpreter_from_state / _validate_liveedit_method / get_method_state, HotSwapVisitor,
ProgramNode.extract_tree_state / apply_tree_state.

Solver variables: the tick of each edit (every tick of the run), which edit from the template's catalogue (append a
line at the end, change a line that has not started, insert a blank line before a not-started line, change a line
that has started), number of edits (1 or 2), UOD command duration.
Oracle (differential, from the statement): run A = template with the edits applied at their ticks; (1) no Mark /
UOD effect of a line that had already happened is repeated after an edit; (2) when the run has finished, A's effect
trace equals the trace of the final text loaded before Start; (3) the reported method state after an accepted edit
contains everything it contained before; (4) an edit that changes a started line is rejected and the run continues
exactly like the unedited run.
"""
from symx.obligation import Obligation
from props.engine_common import engine_rig

TEMPLATES = {
    "marks": ["Mark: A", "Mark: B", "Wait: 0.4s", "Mark: C", "Mark: Z"],
    "block": ["Mark: A", "Block: B1", "    Mark: B", "    Wait: 0.3s", "    End block", "Mark: Z"],
    "uod": ["Mark: A", "CmdA", "Mark: B", "Wait: 0.3s", "Mark: Z"],
}
N = 26
EDITS = ["append", "change_last", "blank_before_last", "change_first"]


def _apply(lines, ids, kind, serial):
    """Returns (new_lines, new_ids). Line ids are kept for unchanged positions (as the frontend does)."""
    lines, ids = list(lines), list(ids)
    if kind == "append":
        lines.append(f"Mark: N{serial}")
        ids.append(f"new{serial}")
    elif kind == "change_last":
        lines[-1] = f"Mark: Z{serial}"
    elif kind == "blank_before_last":
        lines.insert(len(lines) - 1, "")
        ids.insert(len(ids) - 1, f"blank{serial}")
    elif kind == "change_first":
        lines[0] = f"Mark: CHANGED{serial}"
    return lines, ids


def _effects(rig):
    return rig.marks(), [(n, ev) for (_t, n, _i, ev) in rig.rec.uod if ev in ("init", "final")]


def _run(sym, lines, ids, edits, durations, n_ticks):
    """edits: list of (tick, kind). Returns dict of observations."""
    import openpectus.protocol.models as Mdl
    from openpectus.lang.exec.errors import MethodEditError
    obs = {"outcomes": [], "marks_at_edit": [], "state_before": [], "state_after": [], "errors": []}
    with engine_rig(sym, None, durations=durations) as rig:
        e = rig.engine
        e.set_method(Mdl.Method(lines=[Mdl.MethodLine(id=i, content=c) for i, c in zip(ids, lines)], version=0))
        rig.user("Start")
        serial = 0
        for t in range(n_ticks):
            for (te, kind) in edits:
                if te == t:
                    serial += 1
                    new_lines, new_ids = _apply(lines, ids, kind, serial)
                    ms = rig.method_state()
                    before = {"started": set(ms.started_line_ids), "executed": set(ms.executed_line_ids), "failed": set(ms.failed_line_ids)}
                    obs["marks_at_edit"].append(list(rig.marks()))
                    first_started = ids[0] in before["started"] or ids[0] in before["executed"]
                    try:
                        e.set_method(Mdl.Method(lines=[Mdl.MethodLine(id=i, content=c) for i, c in zip(new_ids, new_lines)], version=0))
                        outcome = "accepted"
                        lines, ids = new_lines, new_ids
                    except MethodEditError:
                        outcome = "rejected"
                    except Exception as ex:
                        outcome = "error:" + type(ex).__name__
                    ms = rig.method_state()
                    after = {"started": set(ms.started_line_ids), "executed": set(ms.executed_line_ids), "failed": set(ms.failed_line_ids)}
                    obs["outcomes"].append((kind, outcome, first_started))
                    obs["state_before"].append(before)
                    obs["state_after"].append(after)
            rig.tick(0.1)
        obs["errors"] = list(rig.tick_errors)
        obs["marks"], obs["uod"] = _effects(rig)
        obs["final_lines"], obs["final_ids"] = lines, ids
        obs["method_error"] = e.has_error_state()
    return obs


def harness(sym):
    t = sym.shard["template"]
    kinds = sym.shard["edits"]
    lines = list(TEMPLATES[t])
    ids = [f"id_{i + 1}" for i in range(len(lines))]
    durations = {"CmdA": sym.int("dur_CmdA", 1, 5)} if t == "uod" else {}
    ticks = []
    lo = 1
    for k in range(len(kinds)):
        tk = sym.int(f"edit_tick{k}", lo, 16)
        ticks.append(tk)
    if len(ticks) == 2:
        sym.assume(ticks[0] < ticks[1])
    edits = list(zip(ticks, kinds))
    a = _run(sym, lines, ids, edits, durations, N)
    sym.check(not a["errors"], "tick-raised", lambda: f"{t} {kinds}: Engine.tick raised {a['errors'][:1]}")
    desc = lambda: f"{t}: edits {[(sym.realize(tk), kd) for tk, kd in edits]} outcomes {a['outcomes']}"   # noqa: E731
    all_marks = a["marks"]
    # (1) nothing that had already run is run again
    for m in set(all_marks):
        sym.check(all_marks.count(m) <= 1, "re-executed-after-edit", lambda: f"{desc()}: marks {all_marks}")
    inits = [n for (n, ev) in a["uod"] if ev == "init"]
    sym.check(len(inits) <= 1, "uod-command-re-executed-after-edit", lambda: f"{desc()}: UOD callbacks {a['uod']}")
    # (3) reported method state is monotone across an accepted edit
    for (kind, outcome, _fs), before, after in zip(a["outcomes"], a["state_before"], a["state_after"]):
        if outcome == "accepted":
            for key in ("started", "executed", "failed"):
                lost = before[key] - (after["started"] | after["executed"] | after["failed"])
                sym.check(not lost, "method-state-lost-by-edit", lambda: f"{desc()}: {key} lines {sorted(lost)} disappeared from the method state after the edit")
    # (4) an edit of a started line is rejected and changes nothing
    rejected_only = all(o == "rejected" for (_k, o, _f) in a["outcomes"])
    for (kind, outcome, first_started) in a["outcomes"]:
        if kind == "change_first" and first_started:
            sym.check(outcome == "rejected", f"edit-of-started-line-not-rejected|outcome={outcome}", lambda: desc())
    # (2) after the last edit the run continues exactly as if the final text had been loaded from the start
    b = _run(sym, a["final_lines"], a["final_ids"], [], durations, N)
    if not a["method_error"] and not b["method_error"]:
        sym.check(a["marks"] == b["marks"], "differs-from-fresh-load|marks" if not rejected_only else "rejected-edit-changed-run|marks",
                  lambda: f"{desc()}: marks with live edits {a['marks']}, marks of the final text loaded from the start {b['marks']}")
        sym.check(a["uod"] == b["uod"], "differs-from-fresh-load|uod" if not rejected_only else "rejected-edit-changed-run|uod",
                  lambda: f"{desc()}: UOD callbacks with live edits {a['uod']}, fresh load {b['uod']}")
    sym.note("template", t)


def _shards(tier):
    out = []
    for t in TEMPLATES:
        for k in EDITS:
            out.append({"template": t, "edits": [k]})
        if tier != "quick":
            for k1 in EDITS:
                for k2 in EDITS:
                    out.append({"template": t, "edits": [k1, k2]})
        else:
            out.append({"template": t, "edits": ["append", "change_last"]})
    return out


OBLIGATIONS = [Obligation(
    name="live_edit", kind="crosshair", harness=harness, shards=_shards, cpu_budget={"quick": 400.0, "thorough": 2400.0},
    encoded=["openpectus.engine.engine:Engine.set_method", "openpectus.engine.method_manager:MethodManager.merge_method",
             "openpectus.engine.method_manager:MethodManager._create_interpreter_merge_state", "openpectus.engine.method_manager:MethodManager._create_interpreter_from_state",
             "openpectus.engine.method_manager:MethodManager._validate_liveedit_method", "openpectus.lang.exec.hotswap:HotSwapVisitor.visit",
             "openpectus.lang.model.ast:ProgramNode.extract_tree_state", "openpectus.lang.model.ast:ProgramNode.apply_tree_state"],
    symbolic="tick of each edit (1..16), duration of the UOD command (1..5 iterations)",
    bounds={"quick": "3 templates (marks + wait, block, UOD command) x 4 single edits + one 2-edit sequence, 26 ticks",
            "thorough": "all 16 ordered pairs of edits per template"},
    assumptions=["line ids of unchanged lines are preserved by the editor (as the frontend does)", "tick interval fixed; fake hardware; log statements removed at import",
                 "the comparison with the fresh load is made on the complete effect traces at the end of 26 ticks (both runs have finished by then)"],
)]

MANIFEST = {
    "level": "model_checking",
    "text": "Bounded exhaustive symbolic execution (CrossHair/z3) of the real engine and method manager: live edits from a catalogue applied at solver-chosen ticks of the run, compared differentially with the final method text loaded from the start, plus monotonicity of the reported method state and rejection of edits to started lines.",
    "note": "Trusted: CrossHair/z3; three templates, four edit kinds, up to two edits. On the current tree the merge machinery is effectively disabled (recorded known findings).",
    "technique": "symbolic execution of the real engine (CrossHair + z3), bounded exhaustive over edit ticks, differential oracle, counterexample replay",
}
