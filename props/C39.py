"""C39  The local run archive reads back exactly.

Real code: openpectus.engine.archiver.ArchiverTag (__init__, on_start, prepare_tags_file, write_tags_row),
openpectus.lang.exec.tags.Tag.archive, openpectus.lang.exec.tags_impl.MarkTag.set_value / archive.

The writer is CPython's C `_csv`, so the decision per input is a concrete run: the solver enumerates the Mark text
over a small alphabet of delimiter / separator / escape / quote / newline characters (exhaustively, one path per
string) and chooses the other tag values; after the path is detached the values are concretised, the real archiver
writes a real file into a scratch directory, and the file is read back with `csv.reader` configured from the
module's own constants (`delimiter`, `quoting`, `escapechar`, `encoding`).

Oracle (per file): one header row plus one row per `write_tags_row()` call; every data row has as many columns as
the header; the cells of a data row are exactly the strings the tags' own `archive()` returned for that row; the
header cells are the names of the archived tags.
"""
from __future__ import annotations

import os

from symx.obligation import Obligation
from props.io_common import detach, enum_str

LEVEL = "exploration"

ALPHABET = ',;\\"\n a'          # delimiter, mark separator char, escape char, quote char, newline, space, plain letter
NAME_CATALOGUE = ["T1", "a,b", 'q"t', "b\\", "x y", "n [u]", "s;t", "\\,"]
UNIT_CATALOGUE = [None, "L/h", "%", "kg"]
MARK_CATALOGUE = ["A", "a,b", "x\\", 'p"q; r']
_SCRATCH = os.path.join(os.path.dirname(os.path.dirname(os.path.abspath(__file__))), ".scratch")


def _value_thunk(sym, name, kind):
    """Thunk producing the concrete value of one ordinary tag (called after the path is detached)."""
    if kind == "none":
        return lambda: None
    if kind == "int":
        v = sym.int(name + "|int", -10**9, 10**9)
        return lambda: int(sym.realize(v))
    if kind == "float":
        g = sym.grid(name + "|grid", -2**24, 2**24, 64)
        if name.endswith("other") and g < 0:        # both signs explored for the generic tag; the reading's sign is the solver's choice
            pass
        return lambda: float(sym.realize(g))
    if kind == "str":
        s = enum_str(sym, name + "|str", 1, ALPHABET)
        return lambda: s
    raise ValueError(kind)


def _run_archive(plan):
    """Concrete run of the real archiver on `plan`; returns [(signature, detail)] (empty = property holds for this file)."""
    import csv
    import shutil
    import tempfile
    import openpectus.engine.archiver as A
    from openpectus.lang.exec.tags import Tag, TagCollection
    from openpectus.lang.exec.tags_impl import MarkTag, ReadingTag

    os.makedirs(_SCRATCH, exist_ok=True)
    tmp = tempfile.mkdtemp(prefix="c39-", dir=_SCRATCH)
    orig_file = A.__file__
    fails = []
    try:
        A.__file__ = os.path.join(tmp, "archiver.py")       # ArchiverTag.__init__ derives its data directory from the module path
        tags = TagCollection()
        mark = MarkTag()
        reading = ReadingTag(plan["names"][0], unit=plan["unit"])
        other = Tag(plan["names"][1], value=None)
        tags.add(reading)
        tags.add(mark)
        tags.add(other)
        archiver = A.ArchiverTag(lambda: None, lambda: tags, 1.0)    # type: ignore[arg-type]
        tags.add(archiver)
        for t in tags:
            t.format_fn = None
        # record what every tag's own archive() hands to the writer, call by call
        calls: list[list] = []

        def spy(tag):
            real = tag.archive

            def archive():
                v = real()
                calls[-1].append((tag, v))
                return v
            tag.archive = archive
        for t in tags:
            spy(t)
        for text in plan["marks_before_start"]:
            mark.set_value(text, 1.0)
        calls.append([])
        archiver.on_start("run-1")                     # real: file name, prepare_tags_file (header)
        path = archiver.file_path
        for row in plan["rows"]:
            reading.set_value(row["reading"], 2.0)
            if row["simulate"]:
                other.simulate_value(row["other"], 2.0)
            else:
                other.set_value(row["other"], 2.0)
            for text in row["marks"]:
                mark.set_value(text, 2.0)
            calls.append([])
            archiver.write_tags_row()
        with open(path, "r", newline="", encoding=A.encoding) as f:
            read = list(csv.reader(f, delimiter=A.delimiter, quoting=A.quoting, escapechar=A.escapechar))
        header_calls, row_calls = calls[0], calls[1:]
        if len(read) != 1 + len(row_calls):
            fails.append(("archive|row-count", f"{len(row_calls)} rows written after the header, file reads back as {len(read)} records"))
            return fails
        header = read[0]
        archived = [t for t, v in header_calls if v is not None]
        if len(header) != 1 + len(archived):
            fails.append(("archive|header-width", f"header has {len(header)} cells for {len(archived)} archived tags + time"))
        else:
            for cell, t in zip(header[1:], archived):
                if cell not in (t.name, f"{t.name} [{t.unit}]"):
                    fails.append(("archive|header-cell", f"header cell {cell!r} is not the name of tag {t.name!r}"))
                    break
        for k, (rec, rc) in enumerate(zip(read[1:], row_calls)):
            want = [v for _t, v in rc if v is not None]
            if len(rec) != len(header):
                fails.append(("archive|row-width", f"data row {k} has {len(rec)} cells, the header {len(header)}: {rec!r}"))
            elif rec[1:] != want:
                bad = next(i for i, (a, b) in enumerate(zip(rec[1:], want)) if a != b)
                t = [t for t, v in rc if v is not None][bad]
                kind = "mark" if t is mark else "tag"
                fails.append((f"archive|value-changed|{kind}", f"data row {k} column {t.name!r}: archived {want[bad]!r}, read back {rec[1:][bad]!r}"))
        return fails
    finally:
        A.__file__ = orig_file
        shutil.rmtree(tmp, ignore_errors=True)


def _finish(sym, build_plan):
    detach(sym)                     # the _csv boundary: from here on everything is concrete
    with sym.concrete():
        plan = build_plan()
        fails = _run_archive(plan)
    if fails:
        sym.check(False, fails[0][0], fails[0][1])
    sym.reach()


def harness_mark_text(sym):
    """Mark text exhaustive over ALPHABET (first character fixed by the shard), optional second mark, symbolic numeric values."""
    sh = sym.shard
    first = sh["first"]
    max_len = sh["max_len"]
    if first is None:
        rest = None
    else:
        rest = enum_str(sym, "mark_rest", max_len - 1, ALPHABET)
    second = enum_str(sym, "mark2", 1, ALPHABET) if sym.bool("two_marks") else None
    reading = _value_thunk(sym, "reading", "float")
    other = _value_thunk(sym, "other", "int")

    def plan():
        m1 = "" if first is None else first + rest
        marks = [m1] if second is None else [m1, second]
        return {"names": ["Reading", "Other"], "unit": "L/h", "marks_before_start": [],
                "rows": [{"reading": reading(), "other": other(), "simulate": False, "marks": marks}]}
    _finish(sym, plan)


def harness_tag_sets(sym):
    """Tag names / units / value kinds chosen by the solver, Mark text from a catalogue; two data rows."""
    sh = sym.shard
    thorough = sh.get("tier") == "thorough"
    name0 = NAME_CATALOGUE[sh["name"]]
    step = [1, 3][sym.index("name1", 2)]
    name1 = NAME_CATALOGUE[(sh["name"] + step) % len(NAME_CATALOGUE)]
    units = UNIT_CATALOGUE if thorough else UNIT_CATALOGUE[:2]
    marks = MARK_CATALOGUE if thorough else MARK_CATALOGUE[1:3]
    unit = units[sym.index("unit", len(units))]
    pre = True if sym.bool("mark_before_start") else False
    kind = ["none", "int", "float", "str"][sym.index("r0|kind", 4)]
    sim = (True if sym.bool("r0|sim") else False) if kind in ("int", "float") else False
    m0 = sym.index("r0|mark", len(marks) + 1)
    m1 = sym.index("r1|mark", 2)
    r0 = (_value_thunk(sym, "r0|reading", "float"), _value_thunk(sym, "r0|other", kind))
    r1 = (_value_thunk(sym, "r1|reading", "int"), _value_thunk(sym, "r1|other", "int"))

    def plan():
        return {"names": [name0, name1], "unit": unit, "marks_before_start": ["early,mark"] if pre else [],
                "rows": [{"reading": r0[0](), "other": r0[1](), "simulate": sim, "marks": [] if m0 == len(marks) else [marks[m0]]},
                         {"reading": r1[0](), "other": r1[1](), "simulate": False, "marks": [marks[0]] if m1 else []}]}
    _finish(sym, plan)


def _shards_mark(tier):
    max_len = 3 if tier == "quick" else 4
    return [{"first": None, "max_len": max_len}] + [{"first": c, "max_len": max_len} for c in ALPHABET]


def _shards_sets(tier):
    return [{"name": i, "tier": tier} for i in range(len(NAME_CATALOGUE))]


_ENC = ["openpectus.engine.archiver:ArchiverTag.prepare_tags_file", "openpectus.engine.archiver:ArchiverTag.write_tags_row",
        "openpectus.engine.archiver:ArchiverTag.on_start", "openpectus.lang.exec.tags:Tag.archive",
        "openpectus.lang.exec.tags_impl:MarkTag.archive", "openpectus.lang.exec.tags_impl:MarkTag.set_value"]
_ASSUME = ["decision is concrete: csv writer/reader and file I/O are C code; the solver enumerates / chooses the inputs (exploration, not a proof)",
           "read back = csv.reader over open(path, newline='', encoding=archiver.encoding) with archiver.delimiter / quoting / escapechar",
           "archived value of a tag = the string its own archive() returned for that row (float formatting to 5 decimals is the archive's format, not a loss)",
           "archiver.__file__ temporarily points into a scratch directory so that the real ArchiverTag.__init__ creates its data directory there, not in /repo",
           "a Mark set before the run starts is consumed by the header computation (MarkTag.archive resets the tag); whether that mark should appear in a row "
           "is not part of this property and is not checked"]

OBLIGATIONS = [
    Obligation(
        name="mark_text", kind="crosshair", harness=harness_mark_text, shards=_shards_mark, decides="concrete",
        cpu_budget={"quick": 80.0, "thorough": 800.0}, encoded=_ENC,
        symbolic="Mark text: every string over {',' ';' '\\\\' '\"' newline space 'a'} up to the length bound (enumerated through the solver, first character = shard); "
                 "optional second Mark of length <=1 (joined by the real MARK_SEPARATOR); float reading (dyadic grid, either sign) and int tag value chosen by the solver",
        bounds={"quick": "Mark text length <=3, one data row", "thorough": "Mark text length <=4, one data row"},
        assumptions=_ASSUME),
    Obligation(
        name="tag_sets", kind="crosshair", harness=harness_tag_sets, shards=_shards_sets, decides="concrete",
        cpu_budget={"quick": 80.0, "thorough": 800.0}, encoded=_ENC,
        symbolic="tag names from a catalogue with delimiter / quote / escape / bracket characters, unit from a catalogue, two data rows: in the first the value kind of the "
                 "generic tag (None / int / float / every <=1-char string over the alphabet; numeric values plain or simulated) and a Mark from a catalogue or none; "
                 "in the second numeric values and a Mark or none; a Mark set before the run starts or not; numeric values solver-chosen",
        bounds={"quick": "3 ordinary tags (reading, Mark, generic) + the archiver tag itself; 2 rows; units {None, L/h}; 2 catalogue Marks",
                "thorough": "same with units {None, L/h, %, kg} and 4 catalogue Marks"},
        assumptions=_ASSUME),
]

MANIFEST = {
    "level": "exploration",
    "text": "The real ArchiverTag (constructor, on_start, prepare_tags_file, write_tags_row) with real Tag/ReadingTag/MarkTag objects writes a real file into a scratch directory; the file is read back "
            "with csv.reader configured from the archiver module's own delimiter/quoting/escapechar/encoding and compared with what each tag's own archive() returned: one header, one record per "
            "written row, every row as wide as the header, every cell unchanged. The solver enumerates every Mark text over {, ; \\ \" newline space a} up to length 3 (quick) / 4 (thorough), "
            "an optional second Mark, tag names and units from catalogues with delimiter/quote/escape characters, value kinds (None/int/float/str, plain or simulated) and chooses the numbers.",
    "note": "Exploration with an exhaustive finite domain: the writer is CPython's C _csv, so each input is decided by a concrete run after the path is detached and the solver's values are concretised. "
            "Float cells are compared with the archive's own 5-decimal text. A Mark set before run start is consumed by the header computation (MarkTag.archive resets the tag) - not part of this property, not checked.",
    "technique": "solver-enumerated inputs (CrossHair + z3 selectors), concrete execution of the real writer and read-back, counterexample replay",
}
