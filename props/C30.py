"""C30  Each run yields exactly one recent-run record and exactly one plot log.

Real code: AggregatorMessageHandlers.handle_RunStartedMsg/handle_RunStoppedMsg/handle_EngineDisconnected/
handle_RegisterEngineMsg -> FromEngine.run_started/run_stopped/engine_disconnected/register_engine_data/
_try_restore_reconnected_engine_data, and the repositories' store methods (create_plot_log, store_recent_run,
store_recent_engine) over an in-memory session.

Solver variables: the history itself -- per step a selector over {RunStarted(r1), RunStarted(r2), RunStopped(r1),
RunStopped(r2), disconnect-and-re-register}; duplicates, resends and reorderings are unconstrained.

Oracle (from the statement): at every point, per run id, the PlotLog rows and the RecentRun rows number at most
one ("never two"); once RunStarted(r) and afterwards RunStopped(r) were delivered both number exactly one.
"""
from symx.obligation import Obligation
from props.agg_common import aggregator_world, ASSUMPTIONS_DB

RUNS = ["r1", "r2"]
EVENTS = ["start:r1", "start:r2", "stop:r1", "stop:r2", "reconnect"]


def harness(sym):
    n = sym.shard.get("n", 4)
    prefix = sym.shard.get("ev", [])
    with aggregator_world(sym) as w:
        w.register()
        # reference bookkeeping, from the delivered history only
        # new | active (latest RunStarted, nothing since) | superseded (RunStarted of another run came) |
        # cut (RunStopped of another run came while it was active) | stopped (its own RunStopped came)
        status = {r: "new" for r in RUNS}
        started_seen = {r: False for r in RUNS}
        trace = []

        counts = {r: (0, 0) for r in RUNS}

        def check_upper(at, r_evt):
            # evaluated at the event that changes a count (a surplus row stays; it is reported where it is created)
            for r in RUNS:
                npl, nrr = len(w.plot_logs(r)), len(w.recent_runs(r))
                was = (before.get(r_evt, '-') if r == r_evt else 'other')
                if npl != counts[r][0]:
                    sym.check(npl <= 1, f"plot-logs>1|at={at}|run-was={was}", f"{trace}: run {r} has {npl} plot logs")
                if nrr != counts[r][1]:
                    sym.check(nrr <= 1, f"recent-runs>1|at={at}|run-was={was}", f"{trace}: run {r} has {nrr} recent-run records")
                counts[r] = (npl, nrr)
            sym.reach()

        for i in range(n):
            ev = prefix[i] if i < len(prefix) else sym.choice(f"ev{i}", EVENTS)
            trace.append(ev)
            before = dict(status)
            kind, _, r = ev.partition(":")
            if kind == "start":
                w.run_started(r)
                for o in RUNS:
                    if o != r and status[o] == "active":
                        status[o] = "superseded"
                status[r] = "active"
                started_seen[r] = True
                check_upper("start", r)
                sym.check(len(w.plot_logs(r)) >= 1, "plot-log-missing|at=start", f"{trace}: no plot log for started run {r}")
            elif kind == "stop":
                w.run_stopped(r)
                for o in RUNS:
                    if o != r and status[o] == "active":
                        status[o] = "cut"
                if started_seen[r]:
                    status[r] = "stopped"
                check_upper("stop", r)
                if started_seen[r]:
                    sym.check(len(w.recent_runs(r)) >= 1, f"recent-run-missing|run-was={before[r]}",
                              f"{trace}: run {r} was started and stopped but has no recent-run record")
                    sym.check(len(w.plot_logs(r)) >= 1, f"plot-log-missing|at=stop|run-was={before[r]}",
                              f"{trace}: run {r} was started and stopped but has no plot log")
            else:
                w.disconnect()
                check_upper("disconnect", None)
                w.register()
                check_upper("register", None)
        sym.note("trace", trace)


def _shards(tier):
    if tier == "quick":
        return [{"n": 5, "ev": [a, b]} for a in EVENTS for b in EVENTS]
    return [{"n": 7, "ev": [a, b, c]} for a in EVENTS for b in EVENTS for c in EVENTS]


OBLIGATIONS = [Obligation(
    name="run_records", kind="crosshair", harness=harness, shards=_shards,
    cpu_budget={"quick": 150.0, "thorough": 1500.0},
    encoded=["openpectus.aggregator.aggregator:FromEngine.run_started",
             "openpectus.aggregator.aggregator:FromEngine.run_stopped",
             "openpectus.aggregator.aggregator:FromEngine.engine_disconnected",
             "openpectus.aggregator.aggregator:FromEngine.register_engine_data",
             "openpectus.aggregator.aggregator:FromEngine._try_restore_reconnected_engine_data",
             "openpectus.aggregator.aggregator_message_handlers:AggregatorMessageHandlers.handle_RegisterEngineMsg",
             "openpectus.aggregator.aggregator_message_handlers:AggregatorMessageHandlers.handle_RunStartedMsg",
             "openpectus.aggregator.aggregator_message_handlers:AggregatorMessageHandlers.handle_RunStoppedMsg",
             "openpectus.aggregator.data.repository:PlotLogRepository.create_plot_log",
             "openpectus.aggregator.data.repository:RecentRunRepository.store_recent_run",
             "openpectus.aggregator.data.repository:RecentEngineRepository.store_recent_engine"],
    symbolic="the message history: per step a solver-chosen selector over RunStarted(r1|r2), RunStopped(r1|r2), engine disconnect followed "
             "by re-registration (duplicates, resends, reorderings unconstrained)",
    bounds={"quick": "histories of 5 events after the initial registration, two run ids, one engine",
            "thorough": "histories of 7 events, two run ids, one engine"},
    assumptions=ASSUMPTIONS_DB + [
        "run messages are delivered only while the engine is registered and connected (the dispatcher only accepts messages over an engine connection); "
        "a disconnect is followed by a re-registration before the next message",
        "every registration is followed by the engine's UodInfoMsg",
    ],
)]

MANIFEST = {
    "level": "model_checking",
    "text": "Bounded exhaustive exploration (CrossHair/z3 path enumeration) of the real message handlers and FromEngine.run_started / run_stopped / engine_disconnected / register_engine_data with the repositories' real store methods over an in-memory session: every history of RunStarted/RunStopped messages for two run ids (duplicated, resent, reordered) and disconnect/re-registration within the bound is executed; after every event the PlotLog and RecentRun rows per run id are counted (never more than one; exactly one once the run was started and stopped).",
    "note": "The inputs are discrete event selectors, so one path = one history. Trusted: CrossHair's int model, z3. The SQLAlchemy session / SQLite are replaced by an in-memory row store (look-ups answered with first-row / all-rows semantics), ORM row classes by plain records, publishers and asyncio.create_task by no-ops; one engine, two run ids; failing commits and longer histories are outside the claim.",
    "technique": "symbolic execution of the real code (CrossHair + z3), bounded exhaustive over message histories, counterexample replay",
}
