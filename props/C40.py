"""C40  Requests from the aggregator apply atomically between ticks.

Real code: Engine.tick, Engine.set_method / inject_code / execute_control_command_from_user / cancel_instruction /
force_instruction, MethodManager.merge_method, PInterpreter.inject_node -- and everything they call.

Method (no OS threads; the two parties are coroutines): an import-time transform (symx/yieldpoints.py) inserts a call
to a no-op hook before every statement of the functions above.  The harness runs the ticking thread T and lets a
solver variable choose the yield point of Engine.tick at which the request R starts running; symmetrically it runs
R and lets the solver choose the yield point of R at which a tick starts.  Engine._lock is replaced by a lock with
the same blocking semantics: the party that reaches `with self._lock` while the other holds it is suspended right
there (greenlet switch) -- having already executed whatever it does before taking the lock -- and resumes when the
holder releases it.
Phases: a UOD command running, a Wait running, and the ticks that complete a Stop or a Restart (which replace the
interpreter, the tracking and the command manager).
Oracle: the observable outcome (marks, System State, method state, UOD callbacks, run-log item names/states, no
exception, the request's effect present) after three further ticks equals the outcome of one of the two serial
orders R;T or T;R.
"""
from symx import loader, yieldpoints
from symx.obligation import Obligation
from props.engine_common import engine_rig

yieldpoints.TARGETS.update({
    "openpectus.engine.engine": {"Engine.tick", "Engine.set_method", "Engine.inject_code", "Engine.execute_control_command_from_user",
                                 "Engine.cancel_instruction", "Engine.force_instruction"},
    "openpectus.engine.method_manager": {"MethodManager.merge_method", "MethodManager.set_method"},
    "openpectus.lang.exec.pinterpreter": {"PInterpreter.inject_node"},
})
try:
    loader.install(yieldpoints.transform)
except RuntimeError:
    # openpectus was imported before this module (e.g. by a tool listing metadata): no instrumentation in that process
    pass

PCODE = ["Mark: M1", "CmdA", "Wait: 0.5s", "Mark: M2", "Mark: M3"]
WARM = {"early": 4, "cmd": 6, "wait": 9}       # ticks before the interleaved tick: before CmdA, while it runs, during the Wait
REQUESTS = ["inject", "pause", "stop", "edit", "cancel_wait", "force_wait", "hold"]     # + start / restart in the stopping and restarting phases


class RecLock:
    """Engine._lock with the blocking semantics of threading.Lock, for two parties run as coroutines (greenlets):
    a party that acquires the lock while the other holds it is suspended and resumed when the holder releases it."""

    def __init__(self):
        self.held = False
        self.waiter = None
        self.acquisitions = 0
        self.blocked = 0

    def __enter__(self):
        import greenlet
        if self.held:
            cur = greenlet.getcurrent()
            assert cur.parent is not None and self.waiter is None, "harness bug: the main party blocks on a lock held by a suspended party"
            self.waiter = cur
            self.blocked += 1
            cur.parent.switch()            # suspended here until the holder releases the lock
            assert not self.held, "harness bug: resumed while the lock is held"
        self.held = True
        self.acquisitions += 1
        return self

    def __exit__(self, *a):
        self.held = False
        w, self.waiter = self.waiter, None
        if w is not None:
            w.switch()                     # the blocked party continues (to its end, or until it blocks again)
        return False

    def acquire(self, *a, **k):
        self.__enter__()
        return True

    def release(self):
        self.__exit__()


def _make_request(rig, kind):
    """Returns (callable, needs_lock)."""
    import openpectus.protocol.models as Mdl
    from props.interp_common import snapshot_runlog
    e = rig.engine
    if kind == "inject":
        return (lambda: e.inject_code("Mark: INJ")), False
    if kind in ("pause", "stop", "hold", "start", "restart"):
        name = kind.capitalize()
        return (lambda: e.execute_control_command_from_user(name)), False
    if kind == "edit":
        def edit():
            old = e.method_manager._method
            lines = [Mdl.MethodLine(id=ln.id, content=ln.content) for ln in old.lines] + [Mdl.MethodLine(id="app", content="Mark: APP")]
            e.set_method(Mdl.Method(lines=lines, version=0))
        return edit, False
    if kind in ("cancel_wait", "force_wait"):
        def cf():
            tid = None
            for it in snapshot_runlog(rig):
                if it["name"].startswith("Wait") and it["state"].lower() == "started":
                    tid = it["id"]
            if tid is None:
                tid = "no-such-id"
            (e.cancel_instruction if kind == "cancel_wait" else e.force_instruction)(tid)
        return cf, True
    raise ValueError(kind)


def _observe(rig, req_exc):
    from props.interp_common import snapshot_runlog
    try:
        rl = [(it["name"], it["state"].lower()) for it in snapshot_runlog(rig)]
    except Exception as ex:
        rl = ["runlog-error:" + type(ex).__name__]
    ms = rig.method_state()
    return {"marks": rig.marks(), "state": rig.system_state, "uod": [(n, ev) for (_t, n, _i, ev) in rig.rec.uod],
            "executed": sorted(ms.executed_line_ids), "started": sorted(ms.started_line_ids), "failed": sorted(ms.failed_line_ids),
            "runlog": rl, "tick_errors": [type(x).__name__ for x in rig.tick_errors], "request_exception": type(req_exc).__name__ if req_exc else None,
            "method_status": str(rig.tag("Method Status")), "instances": sorted(rig.engine.uod.command_instances)}


def _scenario(sym, kind, phase, mode, k, takes_lock=None):
    """mode: 'RT' (request, then tick), 'TR', 'R_in_T' (request at yield point k of the tick), 'T_in_R'."""
    import openpectus.protocol.models as Mdl
    ids = [f"id_{i + 1}" for i in range(len(PCODE))]
    with engine_rig(sym, None, durations={"CmdA": 4}) as rig:
        e = rig.engine
        lock = RecLock()
        e._lock = lock
        e.set_method(Mdl.Method(lines=[Mdl.MethodLine(id=i, content=c) for i, c in zip(ids, PCODE)], version=0))
        rig.user("Start")
        for _ in range(WARM[phase.split("+")[0]]):
            rig.tick(0.1)
        if "+" in phase:                   # e.g. "cmd+Stop1": the user command, then that many ticks, before the interleaved tick
            pre = phase.split("+")[1]
            rig.user(pre[:-1])
            for _ in range(int(pre[-1])):
                rig.tick(0.1)
        req, _declared = _make_request(rig, kind)
        state = {"exc": None, "count": 0, "fired": False, "points": 0, "req_locks": 0}

        def run_req():
            a0 = lock.acquisitions
            try:
                req()
            except Exception as ex:
                state["exc"] = ex
            state["req_locks"] += lock.acquisitions - a0

        def spawn(fn):
            import greenlet
            g = greenlet.greenlet(fn)
            state["g"] = g
            g.switch()                     # runs until it ends or blocks on Engine._lock (then resumed by the release)

        def hook_in_tick(label):
            if not label.startswith("Engine.tick:"):
                return
            n = state["count"]
            state["count"] = n + 1
            if state["fired"] or n != k:
                return
            state["fired"] = True
            spawn(run_req)                 # the request's thread runs up to where it blocks on Engine._lock (if the tick holds it)

        def hook_in_req(label):
            if label.startswith("Engine.tick:"):
                return
            n = state["count"]
            state["count"] = n + 1
            if state["fired"] or n != k:
                return
            state["fired"] = True
            yieldpoints.set_hook(None)
            spawn(lambda: rig.tick(0.1))   # the ticking thread runs up to where it blocks on Engine._lock (if the request holds it)
            yieldpoints.set_hook(hook_in_req)
        try:
            if mode == "RT":
                run_req()
                rig.tick(0.1)
            elif mode == "TR":
                rig.tick(0.1)
                run_req()
            elif mode == "R_in_T":
                yieldpoints.set_hook(hook_in_tick)
                rig.tick(0.1)
                yieldpoints.set_hook(None)
                if not state["fired"]:
                    return None, state["count"]
            else:
                yieldpoints.set_hook(hook_in_req)
                run_req()
                yieldpoints.set_hook(None)
                if not state["fired"]:
                    return None, state["count"]
        finally:
            yieldpoints.set_hook(None)
        g = state.get("g")
        if g is not None and not g.dead:
            raise AssertionError("harness bug: a party is still suspended after the interleaved step")
        for _ in range(3 if kind != "stop" else 4):
            rig.tick(0.1)
        obs = _observe(rig, state["exc"])
        obs["_req_locks"] = state["req_locks"]
        return obs, state["count"]


def harness(sym):
    kind, phase, direction = sym.shard["request"], sym.shard["phase"], sym.shard["direction"]
    k = sym.int("yield_point", 0, 60)
    serial = [_scenario(sym, kind, phase, "RT", None)[0], _scenario(sym, kind, phase, "TR", None)[0]]
    takes_lock = serial[0].pop("_req_locks") > 0
    serial[1].pop("_req_locks")
    inter, npoints = _scenario(sym, kind, phase, direction, k, takes_lock=takes_lock)
    if inter is None:
        sym.assume(False)          # fewer yield points than k on this path: nothing to judge
    inter.pop("_req_locks")
    sym.check(not inter["tick_errors"], f"tick-raised|request={kind}|{direction}", lambda: f"{kind} at yield point {sym.realize(k)} ({phase}): Engine.tick raised {inter['tick_errors']}")
    ok = any(inter == s for s in serial)
    if not ok:
        diff = sorted({key for s in serial for key in inter if inter[key] != s[key]})
        lost = "request-lost" if inter["request_exception"] is None and any(inter[key] != serial[0][key] for key in ("marks", "state")) else "differs"
        sym.check(False, f"non-atomic|request={kind}|{direction}|differs-in={'+'.join(diff)}",
                  lambda: f"{kind} interleaved at yield point {sym.realize(k)} of {'Engine.tick' if direction == 'R_in_T' else 'the request'} ({phase} phase): outcome {inter} equals neither R;T {serial[0]} nor T;R {serial[1]}")
    sym.note("points", npoints)


def _shards(tier):
    out = []
    phases = ["cmd", "wait"] if tier == "quick" else list(WARM)
    for r in REQUESTS:
        for ph in phases:
            out.append({"request": r, "phase": ph, "direction": "R_in_T"})
            if r in ("inject", "edit", "pause", "stop", "hold"):
                out.append({"request": r, "phase": ph, "direction": "T_in_R"})
    # ticks that complete a Stop or a Restart replace the interpreter and the command manager
    for r in (["start"] if tier == "quick" else ["start", "pause", "stop", "inject", "edit", "restart"]):
        for ph in ["cmd+Stop0", "cmd+Stop1", "cmd+Restart1", "cmd+Restart2"] + ([] if tier == "quick" else ["wait+Stop1", "cmd+Restart0", "cmd+Restart3"]):
            out.append({"request": r, "phase": ph, "direction": "R_in_T"})
            out.append({"request": r, "phase": ph, "direction": "T_in_R"})
    return out


OBLIGATIONS = [Obligation(
    name="interleavings", kind="crosshair", harness=harness, shards=_shards, cpu_budget={"quick": 400.0, "thorough": 1800.0},
    encoded=["openpectus.engine.engine:Engine.tick", "openpectus.engine.engine:Engine.set_method", "openpectus.engine.engine:Engine.inject_code",
             "openpectus.engine.engine:Engine.execute_control_command_from_user", "openpectus.engine.engine:Engine.cancel_instruction",
             "openpectus.engine.engine:Engine.force_instruction", "openpectus.engine.method_manager:MethodManager.merge_method",
             "openpectus.lang.exec.pinterpreter:PInterpreter.inject_node"],
    symbolic="the yield point (statement boundary) at which the other party runs: every statement of Engine.tick (request inside tick) or every statement of the request's instrumented functions (tick inside request)",
    bounds={"quick": "7 requests (inject, Pause, Stop, Hold, live edit, cancel Wait, force Wait) x 2 run phases (UOD command running; Wait running), plus Start in the 4 ticks around the completion of a Stop / Restart; one request per tick, either party preempted once (plus the lock hand-over)",
            "thorough": "3 run phases; Start, Pause, Stop, inject, live edit, Restart in 7 stopping / restarting phases"},
    assumptions=["interleavings at statement boundaries of the instrumented functions only (not inside the interpreter or command manager)",
                 "either party is preempted once: schedules in which both are split more than once are outside the claim",
                 "Engine._lock replaced by a coroutine lock with the blocking semantics of threading.Lock (the blocked party resumes at the release and then runs to its end before the releasing party continues); replays also run on the instrumented modules (the hook is a no-op call)",
                 "tick interval fixed; fake hardware; log statements removed at import"],
)]

MANIFEST = {
    "level": "model_checking",
    "text": "Bounded exhaustive symbolic execution (CrossHair/z3) of the real engine with instrumented yield points: the statement boundary at which a whole request runs inside a tick (or a whole tick inside a request) is a solver variable; the outcome after three further ticks must equal one of the two serial orders.",
    "note": "Trusted: CrossHair/z3, the yield-point transform (adds calls to a no-op), the recording lock; single preemption per party.",
    "technique": "symbolic execution of the real engine (CrossHair + z3) over solver-chosen interleaving points inserted by an import-time AST transform, serializability oracle, counterexample replay",
}
