"""Shared fixtures for the aggregator properties C28, C29, C30, C37.

What is real and what is a stand-in
-----------------------------------
* Real: `Aggregator`, `FromEngine`, `FromFrontend`, `AggregatorMessageHandlers`, `EngineData`/`RunData`/`TagsInfo`,
  and the *store* methods of the repositories (`PlotLogRepository.create_plot_log/store_new_tag_info/
  store_tag_values`, `RecentRunRepository.store_recent_run`, `RecentEngineRepository.store_recent_engine`):
  their code runs unchanged and hands its rows to the session.
* Stand-in (the SQLAlchemy / SQLite boundary): the ORM row classes the repository module instantiates are
  replaced by plain attribute records of the same names (SQLAlchemy's instrumented attributes cost ~40 ms per
  object under tracing; an unset column reads as None, as with the ORM); `FakeSession` keeps committed rows in a
  Python list (`FakeDb.rows`, the "database file"; it survives an aggregator restart) and hands out
  autoincrement ids at commit; the `select(...)` look-ups the aggregator code path needs are answered from that
  list with the semantics of the SQL they replace (first matching row / all matching rows).
* `database.create_scope/scoped_session`, `asyncio.create_task`, `time.time` inside
  `openpectus.aggregator.aggregator` are replaced for the duration of a harness run; publishers are no-op stubs.
"""
from __future__ import annotations

import contextlib

COMPUTER, UOD = "PC", "UOD"
ENGINE_ID = "PC_UOD"            # default; World.engine_id is taken from Aggregator.create_engine_id(register msg)
TAG_NAMES = ["A", "B", "C"]     # A and B are readings (have plot-log entries); C is a tag that is not plotted

ASSUMPTIONS_DB = [
    "SQLAlchemy Session / SQLite replaced by an in-memory session: committed rows are kept in a list, ids are handed out at "
    "commit (autoincrement); the repositories' store methods are the real ones, the ORM row classes they instantiate are "
    "replaced by plain attribute records of the same names (unset column reads as None)",
    "the select() look-ups get_recent_engine_by_engine_id / get_plot_log_entry / get_plot_log_entries are answered from that "
    "list (first matching row in insertion order resp. all matching rows), i.e. the SQL layer is assumed to implement them faithfully",
    "database.create_scope / scoped_session replaced by a scope over the in-memory session; commits never fail",
    "FrontendPublisher / WebPushPublisher are no-op stubs, asyncio.create_task is a no-op (publishing is not part of the property)",
    "aggregator.time replaced by a fixed harness clock (only used for a notification timestamp)",
    "log statements removed at import (symbolic run only; replays run the unmodified modules)",
]
ASSUMPTION_DATETIME = ("aggregator.models.datetime replaced by a stub: TagsInfo.upsert only formats two tick times for a warning inside its "
                       "__debug__ block (out-of-range tick times crashing that formatting are outside the claim)")


class FakeDb:
    """The persistent store shared by consecutive Aggregator instances."""

    def __init__(self):
        self.rows = []          # committed ORM objects in commit order
        self.next_id = 1
        self.commits = 0

    def of(self, cls):
        return [r for r in self.rows if type(r) is cls]


class FakeSession:
    def __init__(self, db: FakeDb):
        self.db = db
        self.pending = []

    def add(self, o):
        self.pending.append(o)

    def add_all(self, it):
        for o in it:
            self.pending.append(o)

    def delete(self, o):
        self.db.rows = [r for r in self.db.rows if r is not o]

    def commit(self):
        db = self.db
        for o in self.pending:
            known = False
            for r in db.rows:
                if r is o:
                    known = True
                    break
            if not known:
                if getattr(o, "id", None) is None:
                    o.id = db.next_id
                    db.next_id += 1
                db.rows.append(o)
        self.pending = []
        db.commits += 1

    def rollback(self):
        self.pending = []

    def close(self):
        self.pending = []


class FakeDatabase:
    """Replaces the module object `database` inside openpectus.aggregator.aggregator."""

    def __init__(self, db: FakeDb):
        self.db = db
        self._session = None

    @contextlib.contextmanager
    def create_scope(self):
        prev = self._session
        self._session = FakeSession(self.db)
        try:
            yield
        except Exception:
            self._session.rollback()
            raise
        finally:
            self._session.close()
            self._session = prev

    def scoped_session(self):
        if self._session is None:
            raise RuntimeError("harness: scoped_session() outside create_scope()")
        return self._session


class Clock:
    def __init__(self, now=1_700_000_000.0):
        self.now = now

    def time(self):
        return self.now


class NoDatetime:
    """models.datetime stand-in: TagsInfo.upsert formats both tick times for a (stripped) warning in its __debug__ block;
    datetime.fromtimestamp cannot take a solver real."""

    class _S:
        def strftime(self, fmt):
            return ""

    @classmethod
    def fromtimestamp(cls, *a, **kw):
        return cls._S()


class StubAsyncio:
    """asyncio.create_task stand-in: the publisher stubs return None instead of coroutines."""

    @staticmethod
    def create_task(coro, **kw):
        if coro is not None and hasattr(coro, "close"):
            coro.close()
        return None


class _Noop:
    def __call__(self, *a, **kw):
        return None

    def __getattr__(self, name):
        if name.startswith("__"):
            raise AttributeError(name)
        return _Noop()


class StubPublisher:
    """FrontendPublisher stand-in: records the callbacks FromFrontend registers, publishes nothing."""

    def __init__(self):
        self.on_disconnect_callbacks = []
        self.subscribe_callbacks = []
        outer = self

        class _Notifier:
            def register_subscribe_event(self, cb):
                outer.subscribe_callbacks.append(cb)

        class _Methods:
            event_notifier = _Notifier()

        class _Endpoint:
            methods = _Methods()

        self.pubsub_endpoint = _Endpoint()

    def register_on_disconnect(self, cb):
        self.on_disconnect_callbacks.append(cb)

    def __getattr__(self, name):
        if name.startswith("publish_"):
            return lambda *a, **kw: None
        raise AttributeError(name)


class StubWebPush:
    def publish_message(self, *a, **kw):
        return None

    def publish_test_message(self, *a, **kw):
        return None


class StubDispatcher:
    """AggregatorDispatcher stand-in: keeps the handler table and the set of connected engine ids."""

    def __init__(self):
        self.connected = set()
        self.handlers = {}
        self.register_handler = None
        self.disconnect_handler = None
        self.connect_handler = None

    def set_register_handler(self, h):
        self.register_handler = h

    def set_disconnect_handler(self, h):
        self.disconnect_handler = h

    def set_connect_handler(self, h):
        self.connect_handler = h

    def set_message_handler(self, t, h):
        self.handlers[t] = h

    def has_connected_engine_id(self, engine_id):
        return engine_id in self.connected


def run_coro(coro):
    """Drive a coroutine that never really awaits (all awaited things are stubs) to completion."""
    try:
        coro.send(None)
    except StopIteration as e:
        return e.value
    coro.close()
    raise RuntimeError("harness: coroutine suspended unexpectedly")


ROW_CLASSES = ["PlotLog", "PlotLogEntry", "PlotLogEntryValue", "RecentRun", "RecentRunMethodAndState", "RecentRunPlotConfiguration",
               "RecentRunRunLog", "RecentRunErrorLog", "RecentEngine"]


class Row:
    """Plain attribute record standing in for a SQLAlchemy ORM row object (an unset column reads as None)."""

    def __init__(self, **kw):
        self.id = None
        for k, v in kw.items():
            setattr(self, k, v)

    def __getattr__(self, name):
        if name.startswith("__"):
            raise AttributeError(name)
        return None


def make_row_classes():
    return {n: type(n, (Row,), {}) for n in ROW_CLASSES}


def make_repositories(rows):
    """Subclasses of the real repositories whose select()-based look-ups read the in-memory rows."""
    from openpectus.aggregator.data import repository as R

    class PlotLogRepo(R.PlotLogRepository):
        def get_plot_log_entry(self, engine_id, run_id, tag):
            # select(PlotLogEntry).join(PlotLog).where(engine_id).where(name).where(run_id) -> scalar(): first row
            for e in self.db_session.db.of(rows["PlotLogEntry"]):
                pl = e.plot_log
                if pl is not None and pl.engine_id == engine_id and pl.run_id == run_id and e.name == tag.name:
                    return e
            return None

        def get_plot_log_entries(self, engine_id, run_id):
            out = []
            for e in self.db_session.db.of(rows["PlotLogEntry"]):
                pl = e.plot_log
                if pl is not None and pl.engine_id == engine_id and pl.run_id == run_id:
                    out.append(e)
            return out

    class RecentRunRepo(R.RecentRunRepository):
        def get_by_run_id(self, run_id):
            for r in self.db_session.db.of(rows["RecentRun"]):
                if r.run_id == run_id:
                    return r
            return None

    class RecentEngineRepo(R.RecentEngineRepository):
        def get_recent_engine_by_engine_id(self, engine_id):
            for r in self.db_session.db.of(rows["RecentEngine"]):
                if r.engine_id == engine_id:
                    return r
            return None

    return PlotLogRepo, RecentRunRepo, RecentEngineRepo


class World:
    """One aggregator process after the other over the same FakeDb, plus helpers to deliver engine events."""

    def __init__(self, sym):
        self.sym = sym
        self.db = FakeDb()
        self.rows = {}          # name -> row class standing in for the ORM class
        self.engine_id = ENGINE_ID
        self.agg = None
        self.handlers = None
        self.dispatcher = None
        self.publisher = None

    # -- aggregator life cycle ---------------------------------------------------------------------
    def start_aggregator(self):
        from openpectus.aggregator.aggregator import Aggregator
        from openpectus.aggregator.aggregator_message_handlers import AggregatorMessageHandlers
        with self.sym.concrete():
            self.dispatcher = StubDispatcher()
            self.publisher = StubPublisher()
            self.agg = Aggregator(self.dispatcher, self.publisher, StubWebPush())
            self.handlers = AggregatorMessageHandlers(self.agg)
        return self.agg

    def restart_aggregator(self):
        """Graceful stop as in AggregatorServer.stop: Aggregator.shutdown(), dispatcher dropped; then a new process."""
        self.agg.shutdown()
        self.start_aggregator()

    # -- engine side events --------------------------------------------------------------------------
    def register_msg(self):
        import openpectus.protocol.engine_messages as EM
        from openpectus import __version__
        with self.sym.concrete():
            return EM.RegisterEngineMsg(computer_name=COMPUTER, uod_name=UOD, uod_author_name="a", uod_author_email="e",
                                        uod_filename="f", location="loc", engine_version=__version__)

    def register(self, interval=None, uod_info=True):
        """RegisterEngineMsg, websocket connect, and the UodInfoMsg the engine sends on every connection."""
        reply = run_coro(self.handlers.handle_RegisterEngineMsg(self.register_msg()))
        if not reply.success:
            return reply
        self.dispatcher.connected.add(self.engine_id)
        run_coro(self.handlers.handle_EngineConnected(self.engine_id))
        if uod_info:
            self.uod_info(interval)
        return reply

    def uod_info(self, interval=None):
        import openpectus.aggregator.models as Mdl
        with self.sym.concrete():
            readings = [Mdl.ReadingInfo(discriminator="reading", tag_name=n, valid_value_units=None, entry_data_type=None,
                                        commands=[], command_options=None) for n in TAG_NAMES[:2]]
            uod_def = Mdl.UodDefinition(commands=[], system_commands=[], tags=[])
            plot_conf = Mdl.PlotConfiguration.empty()
        self.agg.from_engine.uod_info_changed(self.engine_id, readings, [], uod_def, plot_conf, "hw", set(),
                                              5.0 if interval is None else interval)

    def disconnect(self):
        self.dispatcher.connected.discard(self.engine_id)
        run_coro(self.handlers.handle_EngineDisconnected(self.engine_id))

    def run_started(self, run_id, started_tick=1_700_000_000.0):
        import openpectus.protocol.engine_messages as EM
        with self.sym.concrete():
            msg = EM.RunStartedMsg(engine_id=self.engine_id, run_id=run_id, started_tick=started_tick)
        return run_coro(self.handlers.handle_RunStartedMsg(msg))

    def run_stopped(self, run_id):
        import openpectus.protocol.engine_messages as EM
        import openpectus.aggregator.models as Mdl
        with self.sym.concrete():
            msg = EM.RunStoppedMsg(engine_id=self.engine_id, run_id=run_id, runlog=Mdl.RunLog.empty(), method_state=Mdl.MethodState.empty(),
                                   archive=None, archive_filename=None)
        return run_coro(self.handlers.handle_RunStoppedMsg(msg))

    def tags(self, run_id, tag_values):
        """TagsUpdatedMsg; built with model_construct because the TagValues carry solver variables."""
        import openpectus.protocol.engine_messages as EM
        msg = EM.TagsUpdatedMsg.model_construct(engine_id=self.engine_id, sequence_number=1, tags=tag_values, run_id=run_id)
        return run_coro(self.handlers.handle_TagsUpdatedMsg(msg))

    def tag_value(self, name, tick_time, value):
        import openpectus.protocol.models as PM
        return PM.TagValue.model_construct(name=name, tick_time=tick_time, value=value, value_unit=None, value_formatted=None,
                                           direction=PM.TagDirection.Unspecified, simulated=None)

    # -- observation ---------------------------------------------------------------------------------
    def engine_data(self):
        return self.agg._engine_data_map.get(self.engine_id)

    def plot_logs(self, run_id):
        return [p for p in self.db.of(self.rows["PlotLog"]) if p.run_id == run_id]

    def recent_runs(self, run_id):
        return [r for r in self.db.of(self.rows["RecentRun"]) if r.run_id == run_id]

    def recent_engine(self):
        for r in self.db.of(self.rows["RecentEngine"]):
            if r.engine_id == self.engine_id:
                return r
        return None

    def entry_values(self, start=0):
        """[(plot log row, entry name, PlotLogEntryValue row)] in commit order (ids are concrete ints)."""
        entries = {}
        for e in self.db.of(self.rows["PlotLogEntry"]):
            entries[e.id] = e
        out = []
        for v in self.db.of(self.rows["PlotLogEntryValue"])[start:]:
            e = entries.get(v.plot_log_entry_id)
            out.append((e.plot_log if e is not None else None, e.name if e is not None else None, v))
        return out


@contextlib.contextmanager
def aggregator_world(sym):
    """Patch the DB / asyncio / clock boundaries of openpectus.aggregator.aggregator and yield a World."""
    with sym.concrete():
        import openpectus.aggregator.aggregator as A
        import openpectus.aggregator.aggregator_message_handlers as H
        import openpectus.aggregator.data.repository as R
        import openpectus.aggregator.models as AM
        saved_dt = AM.datetime
        AM.datetime = NoDatetime
        world = World(sym)
        world.rows = make_row_classes()
        PlotLogRepo, RecentRunRepo, RecentEngineRepo = make_repositories(world.rows)
        saved = {k: getattr(A, k) for k in ("database", "PlotLogRepository", "RecentRunRepository", "RecentEngineRepository",
                                            "asyncio", "time")}
        saved_r = {k: getattr(R, k) for k in ROW_CLASSES}
        saved_h = H.asyncio
        for k in ROW_CLASSES:
            setattr(R, k, world.rows[k])
        A.database = FakeDatabase(world.db)
        A.PlotLogRepository = PlotLogRepo
        A.RecentRunRepository = RecentRunRepo
        A.RecentEngineRepository = RecentEngineRepo
        A.asyncio = StubAsyncio
        A.time = Clock()
        H.asyncio = StubAsyncio
        world.start_aggregator()
        world.engine_id = world.agg.create_engine_id(world.register_msg())
    try:
        yield world
    finally:
        with sym.concrete():
            for k, v in saved.items():
                setattr(A, k, v)
            for k, v in saved_r.items():
                setattr(R, k, v)
            H.asyncio = saved_h
            AM.datetime = saved_dt


@contextlib.contextmanager
def frontend_world(sym, unit_ids):
    """Aggregator with stub publisher/dispatcher and one registered EngineData per unit id (no database involved).

    Yields (aggregator, publisher stub); FromFrontend has registered its subscribe / disconnect callbacks on the stub.
    """
    with sym.concrete():
        import openpectus.aggregator.aggregator as A
        import openpectus.aggregator.models as Mdl
        saved_asyncio = A.asyncio
        A.asyncio = StubAsyncio
        publisher = StubPublisher()
        agg = A.Aggregator(StubDispatcher(), publisher, StubWebPush())
        for uid in unit_ids:
            agg._engine_data_map[uid] = Mdl.EngineData(engine_id=uid, computer_name="pc", engine_version="1", uod_name=uid,
                                                       uod_author_name="", uod_author_email="", uod_filename="", location="")
    try:
        yield agg, publisher
    finally:
        with sym.concrete():
            A.asyncio = saved_asyncio

