"""C22  Command argument patterns accept exactly their documented language.

Engine B.  The regular expressions are obtained by CALLING the repo's builders (`RegexNumber`,
`RegexNumberOptional`, `RegexCategorical`, `RegexText` in openpectus/lang/exec/regex.py) on a catalogue of
unit / option lists, translated (sre parse tree -> z3 regular expression, symx/rx.py) as the language of
`re.search` -- the way `RegexNamedArgumentParser.parse/validate` applies them -- and compared with the
documented language by z3 over ALL strings (unbounded length, code points 0..0x2FFFF):

    L_min  subset of  L(regex)  subset of  L_max

L_min / L_max are the minimal / maximal reading of the property statement and the docstrings (unit
mandatory or optional, `1.` a number or not, blank padding = ' ' only or any `\\s`, '+' sign ...), so
nothing beyond the statement is demanded.  The complement side is split into named near-miss classes so
that every kind of undocumented string gets its own stable signature.

The translator is validated on every run and in every shard against Python `re` (docstring examples of
the repo, solver-generated members and non-members).  Every sat witness is replayed on the real regex
through the real `RegexNamedArgumentParser` (re.search) and `ArgSpec` (re.match).

Concrete sub-obligations (solver-generated inputs, decision by running the real code; decides="concrete"):
capture fidelity (number / number_unit / option unchanged) and the introspection functions
get_units / get_exclusive_options / get_additive_options.
"""
from __future__ import annotations

from symx import Violation
from symx.obligation import Obligation

Z3_TIMEOUT_MS = {"quick": 20000, "thorough": 60000}
CVC5_TIMEOUT_MS = {"quick": 4000, "thorough": 20000}
CVC5_LISTS = {"quick": {"docs", "-"}, "thorough": {"slash", "docs", "pipe", "-"}}    # unsat verdicts are cross-checked on these lists only

# ---------------------------------------------------------------------------------------------------
# catalogue (inputs of the repo's builders; the regexes themselves always come from the live functions)
# ---------------------------------------------------------------------------------------------------
UNIT_LISTS = {
    "none": None,
    "kg": ["kg"],
    "plain3": ["kg", "g", "m2"],
    "slash": ["mS/cm", "L/h", "bar"],            # the repo's own test list
    "percent": ["%", "vol%"],
    "paren": ["(L/h)/%", "L/h"],
    "prefix": ["m", "m2", "mm", "min"],          # prefixes of one another
    "pipe": ["a|b", "c"],
    "meta": ["a.b", "c*", "d?", "e+f"],
    "brackets": ["[x]", "{y}", "^z", "$w"],
    "backslash": ["a\\b", "c\\"],
    "nonascii": ["°C", "µS/cm", "m²"],
}
UNIT_LISTS_THOROUGH = {
    "flow6": ["L/h", "L/min", "L/d", "mL/min", "mL/h", "m3/h"],
    "meta6": ["a|b", "(c)", "d.e", "f*", "g?h", "i\\j"],
    "perm5": ["LMH/bar", "L/m2/h/bar", "L/h/m2/bar", "LMH", "L/m2/h"],
}
OPTION_LISTS = {                                 # name -> (exclusive, additive)
    "excl2": (["Open", "Closed"], None),         # docstring example 1
    "docs": (["Closed"], ["VA01", "VA02", "VA03"]),   # docstring example 2
    "add2": (None, ["A", "B"]),
    "demo": (["A", "B"], ["C", "D"]),
    "prefix": (["Off"], ["V", "V1", "V10"]),
    "pipe": (["x|y"], ["p", "q|r"]),
    "meta": (["a.b"], ["c*", "d?", "(e)"]),
    "space": (["Not set"], ["Valve 1", "Valve 2"]),
    "nonascii": (["Åben"], ["µ1", "°2"]),
    "empty_excl": ([], ["VA01", "VA02"]),        # an empty list instead of None
    "empty_add": (["Open", "Closed"], []),
}
OPTION_LISTS_THOROUGH = {
    "add4": (None, ["VA01", "VA02", "VA03", "VA04"]),
    "six": (["Closed", "Auto"], ["P1", "P2", "P3", "P4"]),
    "meta6": (["a|b", "[c]"], ["d.e", "f*", "g$", "^h"]),
}


def _unit_lists(tier):
    d = dict(UNIT_LISTS)
    if tier == "thorough":
        d.update(UNIT_LISTS_THOROUGH)
    return d


def _option_lists(tier):
    d = dict(OPTION_LISTS)
    if tier == "thorough":
        d.update(OPTION_LISTS_THOROUGH)
    return d


def _lang_shards(tier):
    out = []
    for name, units in _unit_lists(tier).items():
        for nn in (False, True):
            for io in (False, True):
                for b in ("RegexNumber", "RegexNumberOptional"):
                    out.append({"builder": b, "list": name, "units": units, "non_negative": nn, "int_only": io})
    for name, (ex, ad) in _option_lists(tier).items():
        out.append({"builder": "RegexCategorical", "list": name, "exclusive": ex, "additive": ad})
    for ae in (False, True):
        out.append({"builder": "RegexText", "list": "-", "allow_empty": ae})
    return out


# ---------------------------------------------------------------------------------------------------
# the live regex
# ---------------------------------------------------------------------------------------------------
def build_regex(b: dict) -> str:
    """Call the repo's builder for this shard / witness."""
    import openpectus.lang.exec.regex as R
    if b["builder"] in ("RegexNumber", "RegexNumberOptional"):
        return getattr(R, b["builder"])(units=b["units"], non_negative=b["non_negative"], int_only=b["int_only"])
    if b["builder"] == "RegexCategorical":
        return R.RegexCategorical(exclusive_options=b["exclusive"], additive_options=b["additive"])
    if b["builder"] == "RegexText":
        return R.RegexText(allow_empty=b["allow_empty"])
    raise ValueError(b["builder"])


def _flags(b: dict) -> str:
    if b["builder"].startswith("RegexNumber"):
        return ("units" if b["units"] else "nounits") + ("|non_negative" if b["non_negative"] else "") + ("|int_only" if b["int_only"] else "")
    if b["builder"] == "RegexCategorical":
        return "lists=" + ("both" if b["exclusive"] and b["additive"] else ("excl-only" if b["exclusive"] else "add-only"))
    return "allow_empty" if b["allow_empty"] else "non_empty"


# ---------------------------------------------------------------------------------------------------
# documented language (reference, written from the property statement and the docstrings)
# ---------------------------------------------------------------------------------------------------
def spec(b: dict) -> dict:
    """-> dict(lmin, lmax, accept_classes{name: RE}, reject_classes{name: RE}) as z3 regular expressions."""
    import z3
    import re._constants as C  # type: ignore
    from symx import rx
    U, Cc, St, Pl, Opt = z3.Union, z3.Concat, z3.Star, z3.Plus, z3.Option
    ws1 = rx.ranges_re(rx.category_ranges(C.CATEGORY_SPACE))      # what Python calls white space
    WS, SP = St(ws1), St(rx.lit(" "))
    ANY = rx.sigma_star()

    def lits(xs):
        xs = [rx.lit(x) for x in xs]
        return xs[0] if len(xs) == 1 else U(*xs)

    if b["builder"] in ("RegexNumber", "RegexNumberOptional"):
        D = z3.Range(rx.sval("0"), rx.sval("9"))
        Dp = Pl(D)
        shapes = {"int": Dp}
        if not b["int_only"]:
            shapes["frac"] = Cc(Dp, rx.lit("."), Dp)
            shapes["leaddot"] = Cc(rx.lit("."), Dp)
        body_max = Dp if b["int_only"] else U(Dp, Cc(Dp, rx.lit("."), St(D)), Cc(rx.lit("."), Dp))
        sign_min = None if b["non_negative"] else Opt(rx.lit("-"))
        sign_max = Opt(rx.lit("+")) if b["non_negative"] else Opt(U(rx.lit("+"), rx.lit("-")))
        num_max = Cc(sign_max, body_max)
        unit = lits(b["units"]) if b["units"] else None

        def padded(num, ws, unit_part):
            return Cc(ws, num, ws, unit_part, ws) if unit_part is not None else Cc(ws, num, ws)

        rej = {}
        for nm, sh in shapes.items():
            rej[nm] = padded(sh if sign_min is None else Cc(sign_min, sh), SP, unit)
        lmin = U(*rej.values()) if len(rej) > 1 else list(rej.values())[0]
        lmax = padded(num_max, WS, Opt(unit) if unit is not None else None)
        acc = {"blank": WS, "has-minus": Cc(ANY, rx.lit("-"), ANY), "has-dot": Cc(ANY, rx.lit("."), ANY)}
        if b["builder"] == "RegexNumberOptional":
            rej["blank"] = SP
            lmin = U(lmin, SP)
            lmax = U(lmax, WS)
        return {"lmin": lmin, "lmax": lmax, "accept_classes": acc, "reject_classes": rej, "num_max": num_max, "ws": WS, "ws1": ws1}

    if b["builder"] == "RegexCategorical":
        import itertools
        ex, ad = b["exclusive"] or [], b["additive"] or []
        plus = rx.lit("+")
        rej = {}
        if ex:
            rej["exclusive"] = lits(ex)
        if ad:
            rej["additive-single"] = lits(ad)
            seqs = []
            for k in range(2, min(len(ad), 4 if len(ad) <= 4 else 3) + 1):     # lists without repetition
                for perm in itertools.permutations(ad, k):
                    seqs.append("+".join(perm))
            if seqs:
                rej["additive-list"] = lits(seqs)
        lmin = U(*rej.values()) if len(rej) > 1 else list(rej.values())[0]
        core = []
        if ex:
            core.append(lits(ex))
        if ad:
            core.append(Cc(lits(ad), St(Cc(plus, lits(ad)))))                   # '+'-separated list (repeats allowed)
        core = U(*core) if len(core) > 1 else core[0]
        lmax = Cc(WS, core, WS)
        allopts = lits(ex + ad)
        acc = {"blank": WS,
               "leading-plus": Cc(WS, plus, ANY),
               "trailing-plus": Cc(ANY, plus, WS),
               "double-plus": Cc(ANY, plus, plus, ANY),
               "adjacent-options": Cc(ANY, allopts, allopts, ANY)}
        if ex:
            acc["exclusive-in-list"] = z3.Intersect(Cc(ANY, lits(ex), ANY), Cc(ANY, plus, ANY))
        return {"lmin": lmin, "lmax": lmax, "accept_classes": acc, "reject_classes": rej, "core": core, "ws": WS, "ws1": ws1}

    if b["builder"] == "RegexText":
        nonl = rx.ranges_re(rx._complement_ranges([(10, 10)]))
        lmin = St(nonl) if b["allow_empty"] else Pl(nonl)
        lmax = ANY if b["allow_empty"] else Pl(rx.sigma())
        return {"lmin": lmin, "lmax": lmax, "accept_classes": {}, "reject_classes": {"single-line": lmin}, "ws": WS, "ws1": ws1}
    raise ValueError(b["builder"])


# ---------------------------------------------------------------------------------------------------
# helpers
# ---------------------------------------------------------------------------------------------------
class Tally:
    def __init__(self, tier, cross_unsat=False):
        self.tier = tier
        self.cross_unsat = cross_unsat
        self.r = {"queries": 0, "unsat": 0, "sat": 0, "unknown": 0, "decisions": 0, "table_rows": 0, "violations": [],
                  "samples": [], "solver_s": 0.0, "cvc5_agree": 0, "cvc5_unknown": 0, "cvc5_disagree": 0}

    def solver(self):
        import z3
        s = z3.Solver()
        s.set("timeout", Z3_TIMEOUT_MS[self.tier])
        return s

    def check(self, s, label="", cross=True):
        """One z3 query (+ cvc5 cross-check).  Returns 'sat' | 'unsat' | 'unknown'."""
        import time
        import z3
        from symx import rx
        t = time.monotonic()
        res = s.check()
        dt = time.monotonic() - t
        self.r["solver_s"] += dt
        self.r["queries"] += 1
        v = "sat" if res == z3.sat else ("unsat" if res == z3.unsat else "unknown")
        if cross and (v == "sat" or (v == "unsat" and self.cross_unsat)):
            other = rx.cvc5_verdict(s, CVC5_TIMEOUT_MS[self.tier])
            if other in ("sat", "unsat"):
                if other == v:
                    self.r["cvc5_agree"] += 1
                else:
                    self.r["cvc5_disagree"] += 1
                    v = "unknown"          # two solvers disagree on the same SMT-LIB text: inconclusive
            else:
                self.r["cvc5_unknown"] += 1
        self.r[v] += 1
        if label and len(self.r["samples"]) < 3:
            self.r["samples"].append({"query": label, "verdict": v, "ms": round(dt * 1000, 1)})
        return v

    def quiet_check(self, s):
        """Generation query (members for validation / fidelity): counted, not cross-checked."""
        return self.check(s, cross=False)


def _docstring_examples():
    """[(builder-dict, string, expected groupdict or None)] parsed from RegexCategorical.__doc__ in the live module."""
    import re
    import ast
    import openpectus.lang.exec.regex as R
    out, cur = [], None
    for line in (R.RegexCategorical.__doc__ or "").splitlines():
        line = line.strip()
        m = re.match(r"regex = RegexCategorical\((.*)\)$", line)
        if m:
            kw = {k.arg: ast.literal_eval(k.value) for k in ast.parse("f(" + m.group(1) + ")", mode="eval").body.keywords}
            cur = {"builder": "RegexCategorical", "list": "docstring", "exclusive": kw.get("exclusive_options"),
                   "additive": kw.get("additive_options")}
            continue
        m = re.match(r'self\.assertEqual\(re\.search\(regex, ("(?:[^"\\]|\\.)*")\)(\.groupdict\(\))?, (.*)\)$', line)
        if m and cur is not None:
            s = ast.literal_eval(m.group(1))
            exp = None if m.group(3).strip() == "None" else {k.arg: ast.literal_eval(k.value) for k in
                                                            ast.parse(m.group(3), mode="eval").body.keywords}
            out.append((cur, s, exp))
    return out


def _test_inputs():
    """argument strings used by the repo's own tests (openpectus/test/engine/test_uod.py), read from the file."""
    import ast
    import os
    import openpectus
    path = os.path.join(os.path.dirname(openpectus.__file__), "test", "engine", "test_uod.py")
    out = set()
    try:
        tree = ast.parse(open(path, encoding="utf-8").read())
    except OSError:
        return []
    for node in ast.walk(tree):
        if (isinstance(node, ast.Call) and isinstance(node.func, ast.Attribute) and node.func.attr == "search"
                and len(node.args) == 2 and isinstance(node.args[1], ast.Constant) and isinstance(node.args[1].value, str)):
            out.add(node.args[1].value)
    return sorted(out)


def _alphabet_re(b, regex):
    """RE of strings over the characters that occur in the lists plus digits, blanks and the structural characters."""
    import z3
    from symx import rx
    chars = set("0123456789 .+-\n\t")
    for k in ("units", "exclusive", "additive"):
        for x in (b.get(k) or []):
            chars.update(x)
    parts = [rx.lit(c) for c in sorted(chars)]
    return z3.Star(z3.Union(*parts))


def _generate(t: Tally, s, constraints, n):
    """Up to n distinct models of string variable `s` under `constraints` (blocking clauses)."""
    import z3
    from symx import rx
    sol = t.solver()
    for c in constraints:
        sol.add(c)
    out = []
    for _ in range(n):
        if t.quiet_check(sol) != "sat":
            break
        v = rx.model_str(sol.model(), s)
        out.append(v)
        sol.add(s != rx.sval(v))
    return out


def _validate_translator(t: Tally, b, regex, lang_search, lang_match, n_gen):
    """Differential validation of the sre->z3 translation against Python `re` (raises on any mismatch)."""
    import re
    import z3
    from symx import rx
    s = z3.String("v")
    strings = ["", " ", "+", "\n", "1", "-1", "1.", ".5", "1.5 ", "12 kg", "A", "A+B"]
    strings += _test_inputs()
    strings += [x for (bb, x, _e) in _docstring_examples()]
    for k in ("units", "exclusive", "additive"):
        for x in (b.get(k) or []):
            strings += [x, "1 " + x, "1" + x, x + x, x + "+" + x, "+" + x, x + "+", x + " ", " " + x, x + "\n", "-.5  " + x + "\t"]
    alpha = _alphabet_re(b, regex)
    half = max(2, n_gen // 4)
    strings += _generate(t, s, [z3.InRe(s, lang_search)], half)
    strings += _generate(t, s, [z3.InRe(s, lang_search), z3.InRe(s, alpha), z3.Length(s) >= 2], half)
    strings += _generate(t, s, [z3.Not(z3.InRe(s, lang_search)), z3.Length(s) >= 1], half)
    strings += _generate(t, s, [z3.Not(z3.InRe(s, lang_search)), z3.InRe(s, alpha), z3.Length(s) >= 2], half)
    strings = sorted(set(strings))
    for how, lang in (("search", lang_search), ("match", lang_match)):
        n, bad, unk = rx.validate(regex, strings, how=how, lang=lang, timeout_ms=Z3_TIMEOUT_MS[t.tier])
        t.r["decisions"] += n
        if bad:
            raise RuntimeError(f"regex translator disagrees with Python re.{how} on {regex!r}: {bad[:3]}")
        if unk:
            t.r["unknown"] += unk
    return len(strings)


# ---------------------------------------------------------------------------------------------------
# obligation 1: language inclusion both ways (z3, all strings)
# ---------------------------------------------------------------------------------------------------
def run_language(shard, tier):
    import z3
    from symx import rx
    t = Tally(tier, cross_unsat=shard["list"] in CVC5_LISTS[tier])
    b = dict(shard)
    regex = build_regex(b)
    R = rx.search_language(regex)           # RegexNamedArgumentParser.parse/validate use re.search
    Rm = rx.match_language(regex)           # ArgSpec.validate uses re.match
    n_val = _validate_translator(t, b, regex, R, Rm, 12 if tier == "quick" else 200)
    sp = spec(b)
    s = z3.String("s")
    fl = _flags(b)

    def emit(kind, cls, sig, detail, string):
        t.r["violations"].append({"signature": sig, "detail": detail,
                                  "witness": {"build": b, "kind": kind, "class": cls, "string": string}})

    # (a) the two ways the repo applies a pattern accept the same strings
    sol = t.solver()
    sol.add(z3.Xor(z3.InRe(s, R), z3.InRe(s, Rm)))
    v = t.check(sol, f"{b['builder']}[{b['list']}] search==match")
    if v == "sat":
        w = rx.model_str(sol.model(), s)
        emit("mode", "-", f"search-vs-match|{b['builder']}|{fl}", f"re.search and re.match disagree on {w!r} for {regex!r}", w)

    # (b) every documented string is accepted:  L_min \ L(regex) = empty, per shape class
    for cls, lang in sp["reject_classes"].items():
        sol = t.solver()
        sol.add(z3.InRe(s, lang), z3.Not(z3.InRe(s, R)))
        v = t.check(sol, f"{b['builder']}[{b['list']}] documented class {cls} subset of regex")
        if v == "sat":
            w = rx.model_str(sol.model(), s)
            emit("rejects", cls, f"rejects-documented|{b['builder']}|{fl}|class={cls}",
                 f"{b['builder']}({_args(b)}) rejects the documented argument {w!r}", w)

    # (c) nothing undocumented is accepted:  L(regex) \ L_max = empty, per near-miss class, then the rest
    outside = z3.And(z3.InRe(s, R), z3.Not(z3.InRe(s, sp["lmax"])))
    for cls, lang in sp["accept_classes"].items():
        sol = t.solver()
        sol.add(outside, z3.InRe(s, lang))
        v = t.check(sol, f"{b['builder']}[{b['list']}] regex minus documented, class {cls}")
        if v == "sat":
            w = rx.model_str(sol.model(), s)
            emit("accepts", cls, f"accepts-undocumented|{b['builder']}|{fl}|class={cls}",
                 f"{b['builder']}({_args(b)}) accepts {w!r}, which is not in the documented language (class {cls})", w)
    sol = t.solver()
    sol.add(outside)
    for lang in sp["accept_classes"].values():
        sol.add(z3.Not(z3.InRe(s, lang)))
    v = t.check(sol, f"{b['builder']}[{b['list']}] regex minus documented, any other string")
    if v == "sat":
        w = rx.model_str(sol.model(), s)
        emit("accepts", "other", f"accepts-undocumented|{b['builder']}|{fl}|class=other|list={b['list']}",
             f"{b['builder']}({_args(b)}) accepts {w!r}, which is not in the documented language", w)
    t.r["samples"].append({"regex": regex, "translator_validated_on": n_val})
    return t.r


def _args(b):
    if b["builder"].startswith("RegexNumber"):
        return f"units={b['units']!r}, non_negative={b['non_negative']}, int_only={b['int_only']}"
    if b["builder"] == "RegexCategorical":
        return f"exclusive_options={b['exclusive']!r}, additive_options={b['additive']!r}"
    return f"allow_empty={b['allow_empty']}"


def _real_accepts(regex, string):
    """The repo's two application sites on the real regex."""
    from openpectus.lang.exec.uod import RegexNamedArgumentParser
    from openpectus.lang.exec.argument_specification import ArgSpec
    p = RegexNamedArgumentParser(regex)
    return p.validate(string), p.parse(string), ArgSpec.Regex(regex).validate(string)


def replay_language(w, shard):
    from symx import rx
    b, s, kind, cls = w["build"], w["string"], w["kind"], w["class"]
    regex = build_regex(b)
    acc_search, groups, acc_match = _real_accepts(regex, s)
    assert acc_search == (groups is not None)
    fl = _flags(b)
    sp = spec(b)
    if kind == "mode":
        if acc_search != acc_match:
            raise Violation(f"search-vs-match|{b['builder']}|{fl}", f"re.search -> {acc_search}, re.match -> {acc_match} on {s!r}")
    elif kind == "rejects":
        if not acc_search and rx.member(sp["reject_classes"][cls], s) is True:
            raise Violation(f"rejects-documented|{b['builder']}|{fl}|class={cls}",
                            f"{b['builder']}({_args(b)}): re.search({regex!r}, {s!r}) is None but the argument is documented (class {cls})")
    elif kind == "accepts":
        if acc_search and rx.member(sp["lmax"], s) is False:
            if cls == "other":
                if all(rx.member(l, s) is False for l in sp["accept_classes"].values()):
                    raise Violation(f"accepts-undocumented|{b['builder']}|{fl}|class=other|list={b['list']}",
                                    f"{b['builder']}({_args(b)}): re.search({regex!r}, {s!r}) -> {groups!r}; not in the documented language")
            elif rx.member(sp["accept_classes"][cls], s) is True:
                raise Violation(f"accepts-undocumented|{b['builder']}|{fl}|class={cls}",
                                f"{b['builder']}({_args(b)}): re.search({regex!r}, {s!r}) -> {groups!r}; not in the documented language (class {cls})")


# ---------------------------------------------------------------------------------------------------
# obligation 2: capture fidelity (solver-generated members, concrete decision on the real parser)
# ---------------------------------------------------------------------------------------------------
QUICK_FIDELITY_LISTS = ("none", "slash", "prefix", "pipe", "paren", "nonascii")


def _fidelity_shards(tier):
    out = []

    def num(builder, name, units, nn, io):
        out.append({"builder": builder, "list": name, "units": units, "non_negative": nn, "int_only": io})

    for name, units in _unit_lists(tier).items():
        if tier == "quick":
            if name in QUICK_FIDELITY_LISTS:
                num("RegexNumber", name, units, False, False)
            continue
        num("RegexNumber", name, units, False, False)
        num("RegexNumberOptional", name, units, False, False)
        num("RegexNumber", name, units, True, True)
    if tier == "quick":
        num("RegexNumberOptional", "slash", UNIT_LISTS["slash"], False, False)
        num("RegexNumber", "kg", UNIT_LISTS["kg"], True, True)
    for name, (ex, ad) in _option_lists(tier).items():
        out.append({"builder": "RegexCategorical", "list": name, "exclusive": ex, "additive": ad})
    for ae in (False, True):
        out.append({"builder": "RegexText", "list": "-", "allow_empty": ae})
    return out


def _fidelity_violation(b, regex, string):
    """Concrete oracle on the real parser. Returns (signature, detail) or None.

    For an accepted, documented argument the delivered groups must be a decomposition of the argument:
    string == blanks + number + blanks + unit + blanks with number a decimal numeral and unit a declared unit
    (any valid decomposition is accepted); option / text == the argument without surrounding blanks."""
    from symx import rx
    acc, groups, _m = _real_accepts(regex, string)
    if not acc:
        return None
    sp = spec(b)
    if rx.member(sp["lmax"], string) is not True:
        return None                                   # undocumented strings are the language obligation's business
    fl = _flags(b)

    def is_ws(x):
        return rx.member(sp["ws"], x) is True

    if b["builder"].startswith("RegexNumber"):
        num, unit = groups.get("number"), groups.get("number_unit")
        if num is None and unit is None and b["builder"] == "RegexNumberOptional" and is_ws(string):
            return None                               # the optional number is absent
        if num is None or rx.member(sp["num_max"], num) is not True:
            return (f"capture|{b['builder']}|{fl}|group=number", f"{string!r} -> {groups!r}: 'number' is not the number in the argument")
        if b["units"]:
            if unit not in b["units"]:
                return (f"capture|{b['builder']}|{fl}|group=number_unit", f"{string!r} -> {groups!r}: 'number_unit' is not a declared unit")
        elif "number_unit" in groups:
            return (f"capture|{b['builder']}|{fl}|group=number_unit", f"{string!r} -> {groups!r}: unit delivered though none declared")
        i = string.find(num)
        ok = False
        while i >= 0 and not ok:                      # any decomposition blanks+num+blanks+unit+blanks
            rest = string[i + len(num):]
            if is_ws(string[:i]):
                if unit is None:
                    ok = is_ws(rest)
                else:
                    j = rest.find(unit)
                    while j >= 0 and not ok:
                        ok = is_ws(rest[:j]) and is_ws(rest[j + len(unit):])
                        j = rest.find(unit, j + 1)
            i = string.find(num, i + 1)
        if not ok:
            return (f"capture|{b['builder']}|{fl}|decomposition", f"{string!r} -> {groups!r}: number and unit are not the argument's parts")
        return None
    key = "option" if b["builder"] == "RegexCategorical" else "text"
    val = groups.get(key)
    if b["builder"] == "RegexText":
        ok = val is not None and string in (val, val + "\n")
    else:
        ok = val is not None and string.startswith(val) and is_ws(string[len(val):]) and rx.member(sp["core"], val) is True
    if not ok:
        return (f"capture|{b['builder']}|{fl}|group={key}", f"{string!r} -> {groups!r}: '{key}' is not the argument")
    return None


def run_fidelity(shard, tier):
    import z3
    from symx import rx
    t = Tally(tier)
    b = dict(shard)
    regex = build_regex(b)
    R = rx.search_language(regex)
    sp = spec(b)
    per_shape = 1 if tier == "quick" else 6
    s = z3.String("s")
    members = []
    base = [z3.InRe(s, R), z3.InRe(s, sp["lmax"])]
    ws = sp["ws"]
    ANY = rx.sigma_star()
    D = z3.Range(rx.sval("0"), rx.sval("9"))

    def _ws(lo, hi):
        return z3.Loop(sp["ws1"], lo, hi)

    if b["builder"].startswith("RegexNumber"):
        units = b["units"] or [None]
        minus = z3.Option(rx.lit("-"))
        num_shapes = {"any": sp["num_max"], "minus": z3.Concat(rx.lit("-"), ANY), "no-sign": z3.Concat(D, ANY),
                      "lead-dot": z3.Concat(minus, rx.lit("."), z3.Plus(D)), "trail-dot": z3.Concat(minus, z3.Plus(D), rx.lit(".")),
                      "inner-dot": z3.Concat(minus, z3.Plus(D), rx.lit("."), z3.Plus(D)), "integer": z3.Concat(minus, z3.Plus(D)),
                      "long": z3.Concat(minus, z3.Loop(D, 6, 9), z3.Option(z3.Concat(rx.lit("."), z3.Loop(D, 3, 6))))}
        gap_shapes = {"no-gap": _ws(0, 0), "gap1": _ws(1, 1), "gap3": _ws(3, 3)}
        pad_shapes = {"tight": (_ws(0, 0), _ws(0, 0)), "lead-blank": (_ws(2, 2), _ws(0, 1)), "trail-blank": (_ws(0, 1), _ws(2, 2))}

        def shape(num, gap, pad, unit):
            parts = [pad[0], z3.Intersect(num, sp["num_max"]), gap]
            if unit is not None:
                parts.append(rx.lit(unit))
            parts.append(pad[1])
            return z3.Concat(*parts)

        generic = (sp["num_max"], _ws(0, 3), (_ws(0, 2), _ws(0, 2)))
        for unit in units:
            for nm, c in num_shapes.items():
                members += _generate(t, s, base + [z3.InRe(s, shape(c, generic[1], generic[2], unit))], per_shape)
            for nm, c in gap_shapes.items():
                members += _generate(t, s, base + [z3.InRe(s, shape(generic[0], c, generic[2], unit))], per_shape)
            for nm, c in pad_shapes.items():
                members += _generate(t, s, base + [z3.InRe(s, shape(generic[0], generic[1], c, unit))], per_shape)
    elif b["builder"] == "RegexCategorical":
        plus = rx.lit("+")
        noplus = z3.Complement(z3.Concat(ANY, plus, ANY))
        shapes = {"single": z3.Concat(z3.Intersect(sp["core"], noplus), _ws(0, 0)),
                  "list": z3.Concat(z3.Intersect(sp["core"], z3.Concat(ANY, plus, ANY)), _ws(0, 0)),
                  "blank-tail": z3.Concat(sp["core"], _ws(1, 2)),
                  "long": z3.Concat(z3.Intersect(sp["core"], z3.Concat(z3.Loop(rx.sigma(), 12, 12), ANY)), _ws(0, 1))}
        for x in (b["exclusive"] or []) + (b["additive"] or []):
            shapes["has:" + x] = z3.Concat(z3.Intersect(sp["core"], z3.Concat(ANY, rx.lit(x), ANY)), _ws(0, 1))
        for nm, c in shapes.items():
            members += _generate(t, s, base + [z3.InRe(s, c)], per_shape * 2)
    else:
        members += _generate(t, s, base, per_shape * 4)
        members += _generate(t, s, base + [z3.InRe(s, z3.Concat(z3.Loop(rx.sigma(), 5, 5), ANY))], per_shape * 4)
    members += _generate(t, s, base, per_shape * 4)           # whatever the solver likes inside regex & documented
    members = sorted(set(members))
    seen = set()
    for m in members:
        t.r["decisions"] += 1
        v = _fidelity_violation(b, regex, m)
        if v is not None and v[0] not in seen:
            seen.add(v[0])
            t.r["violations"].append({"signature": v[0], "detail": v[1], "witness": {"build": b, "string": m}})
    t.r["samples"].append({"regex": regex, "members_checked": len(members), "examples": members[:4]})
    return t.r


def replay_fidelity(w, shard):
    b = w["build"]
    v = _fidelity_violation(b, build_regex(b), w["string"])
    if v is not None:
        raise Violation(v[0], v[1])


# ---------------------------------------------------------------------------------------------------
# obligation 3: introspected unit / option lists  (concrete, on catalogue + per-character probe lists)
# ---------------------------------------------------------------------------------------------------
PROBE_CHARS = "!\"#$%&'()*,-./:;<=>?@[\\]^_`{|}~ °µ²"      # '+' is the documented separator: not an option character


def _introspect(b):
    """-> list of (getter, expected, got-or-exception-text)."""
    from openpectus.lang.exec.uod import RegexNamedArgumentParser
    p = RegexNamedArgumentParser(build_regex(b))
    rows = []
    if b["builder"].startswith("RegexNumber"):
        want = {"get_units": list(b["units"] or []), "get_exclusive_options": [], "get_additive_options": []}
    elif b["builder"] == "RegexCategorical":
        want = {"get_units": [], "get_exclusive_options": list(b["exclusive"] or []), "get_additive_options": list(b["additive"] or [])}
    else:
        want = {"get_units": [], "get_exclusive_options": [], "get_additive_options": []}
    for g, exp in want.items():
        try:
            got = getattr(p, g)()
        except Exception as e:  # noqa
            got = f"{type(e).__name__}: {e}"
        rows.append((g, exp, got))
    return rows


def _same(exp, got):
    return isinstance(got, list) and sorted(got) == sorted(exp)


def _probe_build(builder, which, entries):
    if builder in ("RegexNumber", "RegexNumberOptional"):
        return {"builder": builder, "list": "probe", "units": entries, "non_negative": False, "int_only": False}
    if which == "exclusive":
        return {"builder": "RegexCategorical", "list": "probe", "exclusive": entries, "additive": ["P", "Q"]}
    if which == "additive":
        return {"builder": "RegexCategorical", "list": "probe", "exclusive": ["P", "Q"], "additive": entries}
    if which == "exclusive-only":
        return {"builder": "RegexCategorical", "list": "probe", "exclusive": entries, "additive": None}
    return {"builder": "RegexCategorical", "list": "probe", "exclusive": None, "additive": entries}


def _introspect_cases(tier):
    """[(signature-stem, build-dict)] : plain lists first, then one probe list per special character."""
    cases = []
    for builder, which in (("RegexNumber", "units"), ("RegexNumberOptional", "units"), ("RegexCategorical", "exclusive"),
                           ("RegexCategorical", "additive"), ("RegexCategorical", "exclusive-only"), ("RegexCategorical", "additive-only")):
        cases.append((f"{builder}|{which}|plain", _probe_build(builder, which, ["ab", "c"])))
        for ch in PROBE_CHARS:
            cases.append((f"{builder}|{which}|char=U+{ord(ch):04X}", _probe_build(builder, which, ["a" + ch + "b", "k"])))
            if tier == "thorough":
                cases.append((f"{builder}|{which}|char=U+{ord(ch):04X}", _probe_build(builder, which, [ch + "x", "y" + ch, "k"])))
    for name, units in _unit_lists(tier).items():
        for builder in ("RegexNumber", "RegexNumberOptional"):
            cases.append((f"{builder}|units|list={name}", {"builder": builder, "list": name, "units": units, "non_negative": True, "int_only": False}))
    for name, (ex, ad) in _option_lists(tier).items():
        cases.append((f"RegexCategorical|options|list={name}", {"builder": "RegexCategorical", "list": name, "exclusive": ex, "additive": ad}))
    for ae in (False, True):
        cases.append(("RegexText|-|plain", {"builder": "RegexText", "list": "-", "allow_empty": ae}))
    return cases


def run_introspection(shard, tier):
    r = {"queries": 0, "unsat": 0, "sat": 0, "unknown": 0, "table_rows": 0, "decisions": 0, "violations": [], "samples": []}
    plain_failed = set()          # (builder, which, getter) whose plain list already fails: character probes add nothing
    char_failed = {}              # (builder, getter) -> set of characters that fail on their own
    seen = set()
    for stem, b in _introspect_cases(tier):
        builder, which, tag = stem.split("|", 2)
        for getter, exp, got in _introspect(b):
            r["table_rows"] += 1
            if _same(exp, got):
                continue
            if tag == "plain":
                plain_failed.add((builder, which, getter))
                sig = f"introspect|{getter}|{builder}|{which}|plain"
            elif tag.startswith("char="):
                if (builder, which, getter) in plain_failed:
                    continue
                char_failed.setdefault((builder, getter), set()).add(tag[5:])
                sig = f"introspect|{getter}|{builder}|{which}|{tag}"
            else:
                # catalogue list: already explained by a failing plain list or by characters failing on their own?
                if any((builder, wh, getter) in plain_failed for wh in ("units", "exclusive", "additive", "exclusive-only", "additive-only")):
                    continue
                text = "".join((b.get("units") or []) + (b.get("exclusive") or []) + (b.get("additive") or []))
                if any(chr(int(c[2:], 16)) in text for c in char_failed.get((builder, getter), ())):
                    continue
                sig = f"introspect|{getter}|{builder}|{tag}"
            if sig in seen:
                continue
            seen.add(sig)
            r["violations"].append({"signature": sig, "detail": f"{builder}({_args(b)}): {getter}() returned {got!r}, built from {exp!r}",
                                    "witness": {"build": b, "getter": getter, "signature": sig}})
    r["samples"].append({"cases": len(_introspect_cases(tier)), "note": "each case: 3 getters executed on the live parser"})
    return r


def replay_introspection(w, shard):
    b = w["build"]
    for getter, exp, got in _introspect(b):
        if getter == w["getter"] and not _same(exp, got):
            raise Violation(w["signature"], f"{b['builder']}({_args(b)}): {getter}() returned {got!r}, built from {exp!r}")


# ---------------------------------------------------------------------------------------------------
# obligation 4: the repo's documented examples (docstring of RegexCategorical) hold on the real regex
# ---------------------------------------------------------------------------------------------------
def run_examples(shard, tier):
    r = {"queries": 0, "unsat": 0, "sat": 0, "unknown": 0, "table_rows": 0, "decisions": 0, "violations": [], "samples": []}
    for i, (b, s, exp) in enumerate(_docstring_examples()):
        r["table_rows"] += 1
        _acc, groups, _m = _real_accepts(build_regex(b), s)
        if groups != exp:
            r["violations"].append({"signature": f"docstring-example|RegexCategorical|{_flags(b)}|n={i}",
                                    "detail": f"documented: re.search(regex, {s!r}) -> {exp!r}; real: {groups!r}",
                                    "witness": {"build": b, "string": s, "expected": exp, "n": i}})
    if r["table_rows"] == 0:
        raise RuntimeError("no examples found in RegexCategorical.__doc__ (docstring format changed?)")
    return r


def replay_examples(w, shard):
    b = w["build"]
    _acc, groups, _m = _real_accepts(build_regex(b), w["string"])
    if groups != w["expected"]:
        raise Violation(f"docstring-example|RegexCategorical|{_flags(b)}|n={w['n']}", f"{w['string']!r}: documented {w['expected']!r}, real {groups!r}")


_ENC = ["openpectus.lang.exec.regex:RegexNumber", "openpectus.lang.exec.regex:RegexNumberOptional",
        "openpectus.lang.exec.regex:RegexCategorical", "openpectus.lang.exec.regex:RegexText"]

OBLIGATIONS = [
    Obligation(
        name="language", kind="z3", run=run_language, replay=replay_language, shards=_lang_shards, encoded=_ENC,
        symbolic="the argument string: one z3 string variable of unbounded length over code points 0..0x2FFFF",
        bounds={"quick": "12 unit lists x {signed, non_negative} x {decimal, int_only} x {RegexNumber, RegexNumberOptional}, 9 option-list pairs, RegexText x2; all strings",
                "thorough": "15 unit lists (up to 6 units), 12 option-list pairs (up to 6 options), same flags; all strings; 200 generated strings per regex for translator validation"},
        assumptions=["sre parse tree -> z3 RE translator symx/rx.py (validated each run against re.search / re.match on the repo's examples, the repo's test inputs and solver-generated members and non-members)",
                     "documented language: minimal reading L_min (blank = ' ', unit mandatory when declared, no '1.', additive lists without repetition) must be accepted; nothing outside the maximal reading L_max (any \\s padding, unit optional, '1.' and '+' sign allowed, repeated additive options allowed) may be accepted",
                     "option and unit strings are non-empty and do not contain the separator '+' (options) ; strings with code points above 0x2FFFF are outside the claim",
                     "every sat verdict, and the unsat verdicts of the lists docs/slash/pipe/RegexText, are cross-checked with cvc5 on the SMT-LIB text z3 exports (4 s cap quick, 20 s thorough; disagreement = inconclusive; cvc5 timeout ignored)"]),
    Obligation(
        name="capture_fidelity", kind="z3", run=run_fidelity, replay=replay_fidelity, shards=_fidelity_shards, decides="concrete", encoded=_ENC
        + ["openpectus.lang.exec.uod:RegexNamedArgumentParser.parse"],
        symbolic="members of regex & documented language generated by z3 per boundary shape (sign, leading/trailing '.', 0/1/3 blanks, each unit, single/list options)",
        bounds={"quick": "6 unit lists (RegexNumber), one RegexNumberOptional, one int_only/non_negative, 9 option-list pairs, RegexText; 1 member per shape and unit (14 shapes) + 4 free members", "thorough": "all 15 unit lists x 3 builder variants, 12 option-list pairs; 6 distinct members per shape and unit"},
        assumptions=["decision per member is a concrete run of the real RegexNamedArgumentParser.parse (Python re); the solver only chooses the inputs",
                     "any decomposition blanks+number+blanks+unit+blanks of the argument that equals the delivered groups is accepted"]),
    Obligation(
        name="introspection", kind="finite", run=run_introspection, replay=replay_introspection, shards=lambda tier: [{}], decides="concrete",
        encoded=["openpectus.lang.exec.uod:RegexNamedArgumentParser.get_units", "openpectus.lang.exec.uod:RegexNamedArgumentParser.get_exclusive_options",
                 "openpectus.lang.exec.uod:RegexNamedArgumentParser.get_additive_options", "openpectus.lang.exec.uod:unescape"] + _ENC,
        symbolic="none (concrete): catalogue lists plus one probe list per printable ASCII punctuation character, blank, and three non-ASCII characters",
        bounds={"quick": "6 builder/list positions x (plain + 35 characters) + catalogue", "thorough": "two probe lists per character + larger catalogue"},
        assumptions=["lists are compared as multisets", "'+' (the documented separator) and line breaks are not option characters"]),
    Obligation(
        name="docstring_examples", kind="finite", run=run_examples, replay=replay_examples, shards=lambda tier: [{}], decides="table",
        encoded=["openpectus.lang.exec.regex:RegexCategorical"], symbolic="none: the examples in RegexCategorical.__doc__",
        bounds={"quick": "all examples in the docstring", "thorough": "all examples in the docstring"}, assumptions=[]),
]


LEVEL = "proof"
MANIFEST = {
    "level": "proof",
    "text": "For every unit / option list of a catalogue (plain, '/', '%', parentheses, '|', '.', '*', '?', brackets, backslash, non-ASCII, prefixes of one another; up to 4 entries quick / 6 thorough) the regular expression returned by the real RegexNumber / RegexNumberOptional / RegexCategorical / RegexText is translated from its sre parse tree into a z3 regular expression (language of re.search, and of re.match) and z3 decides over ALL strings (unbounded length, code points up to U+2FFFF) that L_min <= L(regex) <= L_max for the minimal and maximal reading of the documented language; unsat = proof for that list. Capture fidelity and the introspection functions are decided by concrete runs of the real parser on solver-generated members / probe lists (decides=concrete).",
    "note": "Trusted: z3 (sat and selected unsat verdicts cross-checked with cvc5), the sre->z3 translator symx/rx.py (differentially validated against Python re in every shard of every run), the reference languages written from the property statement. The claim is per catalogued list, not for all lists; option strings containing '+' and strings with code points above U+2FFFF are outside the claim. Sub-obligations capture_fidelity, introspection and docstring_examples are concrete (labelled in the evidence).",
    "technique": "direct z3 regular-expression inclusion queries over an encoding extracted from the live regex objects at run time; witnesses replayed with Python re through the real RegexNamedArgumentParser / ArgSpec",
}
