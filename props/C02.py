"""C02  Method instructions run once each, in source order.

Real code: the whole engine; subject = PInterpreter.visit/_visit_children/visit_* (generator based visitor),
NodeVisitor, the parser for the template.

Solver variables: UOD command durations (iterations), the ticks at which the condition tag In1 switches
0->1 and 1->0 (decides when Watch/Alarm flows run relative to the main flow).
Oracle: per-flow reference structure from plain indentation (props/interp_common.structure): effects of a
flow (Mark appends, first exec of UOD commands) occur at most once per invocation, in source order, never
skipping an instruction unless an enclosing block has ended, never before the enclosing block started.
"""
from symx.obligation import Obligation
from props.interp_common import TEMPLATES, run_scenario, check_trace

TICKS = {"seq": 12, "block": 13, "nested": 18, "endblocks": 12, "watch": 14, "watch_block": 18, "alarm": 16,
         "alarm_block": 19, "macro": 24, "wait_cmd": 20, "watch_in_alarm": 16, "trailing": 13,
         "block_in_watch": 20, "block_in_alarm": 20, "empty_openers": 16, "two_watch_blocks": 28, "uod_in_alarm": 20, "uod_in_macro": 20,
         "block_in_macro": 34, "block_between_in_alarm": 30}


def harness(sym):
    t = sym.shard["template"]
    n = sym.shard.get("n", TICKS[t])
    sc = run_scenario(sym, t, n, collect_runlog=False)
    sym.check(not sc.tick_errors, "C02|tick-raised", f"Engine.tick raised {sc.tick_errors[:1]}")
    check_trace(sym, sc, TEMPLATES[t], {"C02"})
    if t == "trailing":
        # blank and comment lines at the end of a scope are never passed
        root_ids = sc.method_states[-1]
        # the last line ids of the template: trailing blank (ids are positional: id_N)
        meth = sc.rig_method
        trailing_ids = [ln.id for ln in meth.lines[-1:]]
        for lid in trailing_ids:
            sym.check(lid not in root_ids["executed"], "C02|trailing-whitespace-passed",
                      f"trailing blank line {lid} is reported as executed: {root_ids}")


def harness_generated(sym):
    """Methods assembled by solver selectors (props/gen_methods.py): tolerant per-flow oracle + exact main-flow reference."""
    from props.gen_methods import generate, check_reference, Infeasible
    sh = sym.shard
    try:
        pc = generate(sym, sh["slots"], sh["body"], sh.get("watch", False), sh.get("uod", False), sh.get("first"), sh.get("blocks", 3), tuple(sh.get("pre", ())))
    except Infeasible:
        sym.assume(False)
    n_lines = pc.count("\n")
    n = 2 * n_lines + 3 * pc.count("Wait:") + (6 if "CmdA" in pc else 0) + 8
    sc = run_scenario(sym, "generated", n, pcode=pc, collect_runlog=False)
    sym.check(not sc.tick_errors, "C02|generated|tick-raised", lambda: f"{pc!r}: Engine.tick raised {sc.tick_errors[:1]}")
    check_trace(sym, sc, pc, {"C02"})
    watch_ends_block = "Watch" in pc and any(ln.strip() == "End block" and i > 0 and pc.split("\n")[i - 1].strip().startswith("Mark: W") for i, ln in enumerate(pc.split("\n")))
    if not watch_ends_block:
        finished = check_reference(sym, sc, pc, "C02")
        stuck = False
        sym.check(finished or stuck, "C02|generated|did-not-finish", lambda: f"{pc!r}: 'END' not reached in {n} ticks; marks {sc.marks_by_tick[-1]}")


def _gen_shards(tier):
    """Shards fix the first item and the first two selector draws (finer shards = more parallelism; misfits are empty)."""
    cfgs = []
    if tier == "quick":
        cfgs += [{"slots": 2, "body": 2, "blocks": 2, "first": f} for f in ("mark", "block", "wait")]
        cfgs += [{"slots": 2, "body": 2, "blocks": 2, "first": "watch", "watch": True, "in1": [a, 99]} for a in (0, 5)]
        cfgs += [{"slots": 2, "body": 2, "blocks": 2, "first": "block", "watch": True, "in1": [3, 99]}]
    else:
        cfgs += [{"slots": 3, "body": 2, "blocks": 2, "first": f, "uod": True} for f in ("mark", "block", "wait", "uod")]
        cfgs += [{"slots": 2, "body": 2, "blocks": 3, "first": "block"}]
        for a in (0, 3, 6, 10):
            cfgs += [{"slots": 3, "body": 2, "blocks": 2, "first": f, "watch": True, "in1": [a, 99]} for f in ("block", "watch", "mark")]
    out = []
    for c in cfgs:
        for p0 in range(7):
            for p1 in range(7):
                out.append(dict(c, pre=[p0, p1]))
    return out


def _shards(tier):
    if tier == "quick":
        out = []
        for t in TEMPLATES:
            if "In1" in TEMPLATES[t]:
                # quick: In1 rises at a solver-chosen tick and stays up / or goes down one tick later: two shards
                out.append({"template": t, "n": min(TICKS[t], 14)})
            else:
                out.append({"template": t})
        return out
    return [{"template": t, "n": TICKS[t] + 4} for t in TEMPLATES]


_GENERATED = Obligation(
    name="generated_methods", kind="crosshair", harness=harness_generated, shards=_gen_shards,
    cpu_budget={"quick": 400.0, "thorough": 3000.0},
    encoded=["openpectus.lang.exec.pinterpreter:PInterpreter.visit", "openpectus.lang.exec.pinterpreter:PInterpreter._visit_children",
             "openpectus.lang.exec.pinterpreter:PInterpreter.visit_BlockNode", "openpectus.lang.exec.pinterpreter:PInterpreter.visit_EndBlockNode",
             "openpectus.lang.exec.pinterpreter:PInterpreter.visit_EndBlocksNode", "openpectus.lang.exec.pinterpreter:PInterpreter.visit_WatchNode",
             "openpectus.lang.model.parser:PcodeParser.parse_method"],
    symbolic="the kind of every item of the method (selectors over Mark / Wait / UOD command / Block / End block / End blocks / Watch and the shape of the Watch body), UOD command duration",
    bounds={"quick": "2 top-level items + 'Mark: END', block bodies of 2 items + 'End block', nesting depth 2, at most 3 blocks and one Watch (condition true from tick 0 or 5)",
            "thorough": "3 top-level items, bodies of 2 items (and 2 top-level items with bodies of 3), one UOD command, one Watch with the condition true from tick 0 / 3 / 6 / 10"},
    assumptions=["reference for the main flow (props/gen_methods.reference): source order; Block left through End block (innermost) / End blocks (all); lines behind the End line in the ended blocks never run",
                 "a Watch body is a separate flow judged by the tolerant per-flow oracle; when a Watch body itself contains 'End block' only that oracle is applied",
                 "run length = 2 ticks per line + allowances: 'END' must be reached", "tick interval fixed; fake hardware; log statements removed at import"])

OBLIGATIONS = [_GENERATED, Obligation(
    name="order_once", kind="crosshair", harness=harness, shards=_shards,
    cpu_budget={"quick": 300.0, "thorough": 2400.0},
    encoded=["openpectus.lang.exec.pinterpreter:PInterpreter.visit", "openpectus.lang.exec.pinterpreter:PInterpreter._visit_children",
             "openpectus.lang.exec.pinterpreter:PInterpreter.tick_iterate_subticks", "openpectus.lang.exec.pinterpreter:PInterpreter.visit_BlockNode",
             "openpectus.lang.exec.pinterpreter:PInterpreter.visit_WatchNode", "openpectus.lang.exec.pinterpreter:PInterpreter.visit_AlarmNode",
             "openpectus.lang.exec.pinterpreter:PInterpreter.visit_CallMacroNode", "openpectus.lang.exec.pinterpreter:PInterpreter.visit_BlankNode",
             "openpectus.lang.exec.visitor:NodeVisitor.visit"],
    symbolic="UOD command durations (1..3 iterations each); ticks at which the Watch/Alarm condition tag switches on and off (two ints over the run length)",
    bounds={"quick": "18 method templates (sequence, block, nested blocks, End blocks, watch, watch in block, alarm, alarm in block, macro with two calls, wait + 3 UOD commands, watch in alarm, trailing blanks, block started from a watch, block started from an alarm), <=14 ticks for condition templates",
            "thorough": "same templates, run length +4 ticks, full condition trajectories"},
    assumptions=["tick interval fixed at 0.1 s (time is not the subject here: C03)", "condition tag follows a single 0->1->0 step trajectory",
                 "fake hardware and instrumented UOD commands; log statements removed at import",
                 "liveness is not asserted (only order, multiplicity, no illegitimate skips)"],
)]

MANIFEST = {
    "level": "model_checking",
    "text": "Bounded exhaustive symbolic execution (CrossHair/z3) of the real interpreter on a catalogue of 18 method templates; the solver chooses command durations and the ticks at which Watch/Alarm conditions switch, so every relative timing of main flow and interrupt flows within the bound is covered; traces are checked against a reference structure derived independently from indentation.",
    "note": "Trusted: CrossHair/z3, the reference flow structure in props/interp_common.py; template catalogue, fixed tick interval, single step trajectory of the condition tag; other programs outside the claim.",
    "technique": "symbolic execution of the real interpreter (CrossHair + z3), bounded exhaustive over condition/duration schedules, reference-structure trace oracle, counterexample replay",
}
