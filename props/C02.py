"""C02  Method instructions run once each, in source order.

Real code: the whole engine; subject = PInterpreter.visit/_visit_children/visit_* (generator based visitor),
NodeVisitor, the parser for the template.

Solver variables: UOD command durations (iterations), the ticks at which the condition tag In1 switches
0->1 and 1->0 (decides when Watch/Alarm flows run relative to the main flow).
Oracle: per-flow reference structure from plain indentation (props/interp_common.structure): effects of a
flow (Mark appends, first exec of UOD commands) occur at most once per invocation, in source order, never
skipping an instruction unless an enclosing block has ended, never before the enclosing block started.
"""
from symx.obligation import Obligation
from props.interp_common import TEMPLATES, run_scenario, check_trace

TICKS = {"seq": 12, "block": 13, "nested": 18, "endblocks": 12, "watch": 14, "watch_block": 18, "alarm": 16,
         "alarm_block": 19, "macro": 24, "wait_cmd": 20, "watch_in_alarm": 16, "trailing": 13,
         "block_in_watch": 20, "block_in_alarm": 20, "empty_openers": 16, "two_watch_blocks": 28, "uod_in_alarm": 20, "uod_in_macro": 20}


def harness(sym):
    t = sym.shard["template"]
    n = sym.shard.get("n", TICKS[t])
    sc = run_scenario(sym, t, n, collect_runlog=False)
    sym.check(not sc.tick_errors, "C02|tick-raised", f"Engine.tick raised {sc.tick_errors[:1]}")
    check_trace(sym, sc, TEMPLATES[t], {"C02"})
    if t == "trailing":
        # blank and comment lines at the end of a scope are never passed
        root_ids = sc.method_states[-1]
        # the last line ids of the template: trailing blank (ids are positional: id_N)
        meth = sc.rig_method
        trailing_ids = [ln.id for ln in meth.lines[-1:]]
        for lid in trailing_ids:
            sym.check(lid not in root_ids["executed"], "C02|trailing-whitespace-passed",
                      f"trailing blank line {lid} is reported as executed: {root_ids}")


def _shards(tier):
    if tier == "quick":
        out = []
        for t in TEMPLATES:
            if "In1" in TEMPLATES[t]:
                # quick: In1 rises at a solver-chosen tick and stays up / or goes down one tick later: two shards
                out.append({"template": t, "n": min(TICKS[t], 14)})
            else:
                out.append({"template": t})
        return out
    return [{"template": t, "n": TICKS[t] + 4} for t in TEMPLATES]


OBLIGATIONS = [Obligation(
    name="order_once", kind="crosshair", harness=harness, shards=_shards,
    cpu_budget={"quick": 300.0, "thorough": 2400.0},
    encoded=["openpectus.lang.exec.pinterpreter:PInterpreter.visit", "openpectus.lang.exec.pinterpreter:PInterpreter._visit_children",
             "openpectus.lang.exec.pinterpreter:PInterpreter.tick_iterate_subticks", "openpectus.lang.exec.pinterpreter:PInterpreter.visit_BlockNode",
             "openpectus.lang.exec.pinterpreter:PInterpreter.visit_WatchNode", "openpectus.lang.exec.pinterpreter:PInterpreter.visit_AlarmNode",
             "openpectus.lang.exec.pinterpreter:PInterpreter.visit_CallMacroNode", "openpectus.lang.exec.pinterpreter:PInterpreter.visit_BlankNode",
             "openpectus.lang.exec.visitor:NodeVisitor.visit"],
    symbolic="UOD command durations (1..3 iterations each); ticks at which the Watch/Alarm condition tag switches on and off (two ints over the run length)",
    bounds={"quick": "18 method templates (sequence, block, nested blocks, End blocks, watch, watch in block, alarm, alarm in block, macro with two calls, wait + 3 UOD commands, watch in alarm, trailing blanks, block started from a watch, block started from an alarm), <=14 ticks for condition templates",
            "thorough": "same templates, run length +4 ticks, full condition trajectories"},
    assumptions=["tick interval fixed at 0.1 s (time is not the subject here: C03)", "condition tag follows a single 0->1->0 step trajectory",
                 "fake hardware and instrumented UOD commands; log statements removed at import",
                 "liveness is not asserted (only order, multiplicity, no illegitimate skips)"],
)]

MANIFEST = {
    "level": "model_checking",
    "text": "Bounded exhaustive symbolic execution (CrossHair/z3) of the real interpreter on a catalogue of 18 method templates; the solver chooses command durations and the ticks at which Watch/Alarm conditions switch, so every relative timing of main flow and interrupt flows within the bound is covered; traces are checked against a reference structure derived independently from indentation.",
    "note": "Trusted: CrossHair/z3, the reference flow structure in props/interp_common.py; template catalogue, fixed tick interval, single step trajectory of the condition tag; other programs outside the claim.",
    "technique": "symbolic execution of the real interpreter (CrossHair + z3), bounded exhaustive over condition/duration schedules, reference-structure trace oracle, counterexample replay",
}
