"""C20  A method the analyzer accepts does not fail on names, args or units.

Analyzer side, built exactly as the aggregator builds it: uod.create_lsp_definition() + engine.get_command_definitions()
-> protocol UodDefinition -> JSON -> lsp_analysis.build_tags / build_commands -> SemanticCheckAnalyzer.
Engine side: a real Engine with the same UOD running the method (Start + 12 ticks).

 arguments  (z3, all strings)  for every command the analyzer knows:  L(analyzer validator) is a subset of
            L(engine acceptance).  Both languages are translated from the live regular expressions with symx.rx
            (re.search for the analyzer's RegexNamedArgumentParser.validate, re.match for ArgSpec.validate_w_groups);
            the run-time conditions of the interpreter are read from the live objects (Base: the UOD's
            base_unit_provider; Run counter: int()).  A `sat` witness is an argument string; it only counts when
            the end-to-end replay (real analysis reports no error, real engine run fails on the argument) reproduces it.
 names      (table, decided by real runs) every command / tag name the analyzer accepts, and one undefined name per
            referencing instruction, in a one-instruction method: analysis without errors => the engine run does not
            fail on an undefined name.
 units      (table, decided by real runs) every (tag unit, written unit, operator) over the live table of supported
            units: condition accepted by the analysis => the engine run does not fail on the units.
"""
from symx import Violation
from symx.obligation import Obligation
from props.lang_common import Sides, run_on_engine, failure_kind, supported_units

UODS = ["demo", "test", "gen_novol", "gen_vol"]
UNDEFINED = "Zebra Quux"


def _accepted(sides, pcode):
    return len(sides.analyzer_errors(pcode)) == 0


def _e2e(uod_name, pcode, kinds):
    """(reproduced?, kind, text): analysis accepts and the engine run fails with one of `kinds`."""
    sides = Sides(uod_name)
    try:
        if not _accepted(sides, pcode):
            return False, None, "analysis reports errors"
    finally:
        sides.close()
    exc = run_on_engine(uod_name, pcode)
    if exc is None:
        return False, None, "engine run ok"
    k = failure_kind(exc)
    return (k in kinds), k, str(exc)[:300]


# ---------------------------------------------------------------------------------------------------------------------
# arguments: regex language inclusion over all strings
# ---------------------------------------------------------------------------------------------------------------------
def _node_type(sides, name):
    from openpectus.lang.model.parser import ParserMethod, create_method_parser
    m = ParserMethod.from_pcode(name + ": x")
    prog = create_method_parser(m, sides.uod.get_command_names()).parse_method(m)
    return type(prog.children[0]).__name__


def _engine_language(sides, name):
    """(z3 RE of the argument strings the engine accepts for command `name`, description) or (None, why-skipped)."""
    import z3
    from symx import rx
    from openpectus.lang.exec.argument_specification import ArgSpec
    from openpectus.lang.exec.uod import RegexNamedArgumentParser, defaultArgumentParser
    import openpectus.lang.exec.pinterpreter as pint_mod
    nt = _node_type(sides, name)
    if nt == "InterpreterCommandNode":
        if name == "Base":
            units = sides.uod.base_unit_provider.get_units()
            return rx.union([rx.lit(u) for u in units]), f"member of base_unit_provider {units}"
        if name == "Run counter":
            # int(arguments) must succeed: under-approximated by the decimal literals int() certainly accepts
            return rx.fullmatch_language(r"[+-]?[0-9]+"), "int(): [+-]?[0-9]+ (under-approximation)"
        if name == "Wait":
            return rx.match_language(pint_mod.REGEX_DURATION), "re.match(REGEX_DURATION)"
        return rx.sigma_star(), "no argument check"
    if nt == "EngineCommandNode":
        spec = sides.engine.registry._command_spec.get(name)
        if spec is None or spec is ArgSpec.NoCheckInstance or spec.regex == "":
            return rx.sigma_star(), "ArgSpec.NoCheck"
        return rx.match_language(spec.regex), f"re.match({spec.regex!r})"
    if nt == "UodCommandNode":
        fn = sides.uod.command_factories[name].arg_parse_fn
        parser = RegexNamedArgumentParser.get_instance(fn)
        if parser is not None:
            return rx.search_language(parser.regex), f"re.search({parser.regex!r})"
        if fn is None or fn is defaultArgumentParser:
            return rx.sigma_star(), "default argument parser"
        return None, "custom Python argument parser (outside the property: regex-argument commands)"
    if nt == "ErrorInstructionNode":
        return None, "name unknown to the engine (decided by obligation names)"
    return rx.sigma_star(), f"{nt}: no argument validation in the engine"


def _reachable_arguments():
    """Arguments as the parser hands them to both sides: stripped, no '#', no line break."""
    import z3
    from symx import rx
    cps = [c for c in range(rx.MAX_CP + 1) if chr(c).isspace()]        # what str.strip() removes, measured on the interpreter
    ranges, start, prev = [], None, None
    for c in cps:
        if start is None:
            start = prev = c
        elif c == prev + 1:
            prev = c
        else:
            ranges.append((start, prev))
            start = prev = c
    ranges.append((start, prev))
    ws = rx.ranges_re(ranges)
    bad = z3.Union(rx.lit("#"), rx.lit("\n"), rx.lit("\r"))
    ok_char = z3.Intersect(rx.sigma(), z3.Complement(bad))
    body = z3.Star(ok_char)
    edge = z3.Intersect(ok_char, z3.Complement(ws))
    return z3.Union(rx.eps(), edge, z3.Concat(edge, body, edge))


def _pcode_for(name, arg):
    return name + (": " + arg if arg != "" else "")


def run_arguments(shard, tier):
    import z3
    from symx import rx
    uod_name = shard["uod"]
    sides = Sides(uod_name)
    out = {"queries": 0, "unsat": 0, "sat": 0, "unknown": 0, "violations": [], "samples": [], "spurious_witnesses": 0, "skipped": [],
           "translator_checks": 0, "cvc5_agree": 0, "cvc5_other": 0}
    try:
        reach = _reachable_arguments()
        probes = ["", " ", "5", "5 s", "5s", "1.5 min", "x", "L", "CV", "kg", "A", "VA01+VA02", "Closed", "5 mL", "5 %", "-3", "+4", "1_0", "٣", "5\n", "a b"]
        for cmd in sides.commands.to_list():
            name = cmd.name
            if cmd.arg_parser is None:
                la, la_desc = rx.sigma_star(), "no validator"
            else:
                la, la_desc = rx.search_language(cmd.arg_parser.regex), f"re.search({cmd.arg_parser.regex!r})"
                n, bad, unk = rx.validate(cmd.arg_parser.regex, probes, how="search", lang=la)
                out["translator_checks"] += n
                if bad or unk:
                    out["unknown"] += 1
                    out["skipped"].append(f"{name}: translator disagrees with re on {bad[:2]} / {unk} unknown")
                    continue
            le, le_desc = _engine_language(sides, name)
            if le is None:
                out["skipped"].append(f"{name}: {le_desc}")
                continue
            s = z3.String("arg")
            solver = z3.Solver()
            solver.set("timeout", 20000 if tier == "quick" else 60000)
            solver.add(z3.InRe(s, la), z3.InRe(s, reach), z3.Not(z3.InRe(s, le)))
            blocked = 0
            while True:
                r = solver.check()
                out["queries"] += 1
                if r == z3.unsat:
                    out["unsat"] += 1
                    if tier != "quick" and blocked == 0:
                        v = rx.cvc5_verdict(solver, 10000)
                        if v == "unsat":
                            out["cvc5_agree"] += 1
                        elif v == "sat":
                            out["unknown"] += 1
                            out["skipped"].append(f"{name}: cvc5 says sat where z3 says unsat")
                        else:
                            out["cvc5_other"] += 1
                    if len(out["samples"]) < 3:
                        out["samples"].append({"uod": uod_name, "command": name, "analyzer": la_desc, "engine": le_desc, "inclusion": "unsat"})
                    break
                if r != z3.sat:
                    out["unknown"] += 1
                    break
                out["sat"] += 1
                arg = rx.model_str(solver.model(), s)
                pcode = _pcode_for(name, arg)
                ok, kind, text = _e2e(uod_name, pcode, ("argument",))
                if ok:
                    out["violations"].append({"signature": f"arguments|command={name}|uod={_uod_class(uod_name, name)}",
                                              "detail": f"{uod_name}: analysis accepts {pcode!r} ({la_desc}); engine accepts only {le_desc}; run fails: {text}",
                                              "witness": {"uod": uod_name, "pcode": pcode}})
                    break
                out["spurious_witnesses"] += 1
                blocked += 1
                solver.add(s != rx.sval(arg))
                if blocked >= 8:
                    out["unknown"] += 1
                    out["skipped"].append(f"{name}: 8 solver witnesses did not reproduce ({text})")
                    break
            # the inclusion above is about the validator's language: check that the real analysis applies the validator --
            # arguments outside L(validator) (solver-generated, and the empty argument written with and without ':') that the
            # engine refuses must be reported by the real analysis
            if cmd.arg_parser is not None:
                cands = [name, name + ":"]
                gen = z3.Solver()
                gen.set("timeout", 5000)
                gen.add(z3.Not(z3.InRe(s, la)), z3.InRe(s, reach), z3.Not(z3.InRe(s, le)), z3.Length(s) > 0)
                for _ in range(2):
                    out["queries"] += 1
                    if gen.check() != z3.sat:
                        break
                    a = rx.model_str(gen.model(), s)
                    cands.append(_pcode_for(name, a))
                    gen.add(s != rx.sval(a))
                for pcode in cands:
                    out["validator_applied_checks"] = out.get("validator_applied_checks", 0) + 1
                    if sides.analyzer_errors(pcode):
                        continue
                    ok, kind, text = _e2e(uod_name, pcode, ("argument",))
                    if ok:
                        out["violations"].append({"signature": f"arguments|validator-not-applied|command={name}|uod={_uod_class(uod_name, name)}",
                                                  "detail": f"{uod_name}: the argument of {pcode!r} is outside the validator's language ({la_desc}) but the analysis reports nothing; run fails: {text}",
                                                  "witness": {"uod": uod_name, "pcode": pcode, "kind": "validator-not-applied"}})
                        break
    finally:
        sides.close()
    return out


def _uod_class(uod_name, command):
    """Stable description of the configuration for the signature (not the solver's string)."""
    if command == "Base":
        return "base-units-" + "+".join(sorted(set(_base_classes(uod_name))))
    return uod_name


def _base_classes(uod_name):
    from props.lang_common import make_uod
    units = make_uod(uod_name).base_unit_provider.get_units()
    out = ["time"]
    if "L" in units:
        out.append("volume")
    if "CV" in units:
        out.append("cv")
    return out


def replay_e2e(witness, shard):
    kinds = tuple(witness.get("kinds", ("argument",)))
    ok, kind, text = _e2e(witness["uod"], witness["pcode"], kinds)
    if ok:
        raise Violation(witness["signature"], f"{witness['uod']}: analysis accepts {witness['pcode']!r}, engine run fails: {text}")


def replay_arguments(witness, shard):
    name = witness["pcode"].split(":")[0]
    mid = "validator-not-applied|" if witness.get("kind") == "validator-not-applied" else ""
    w = dict(witness, signature=f"arguments|{mid}command={name}|uod={_uod_class(witness['uod'], name)}", kinds=["argument"])
    replay_e2e(w, shard)


# ---------------------------------------------------------------------------------------------------------------------
# names
# ---------------------------------------------------------------------------------------------------------------------
ARG_CANDIDATES = ["", "1 s", "5", "A", "s", "x", "1 m2", "1 %", "Closed", "1 mL", "1 L/h", "M"]


def _method_for_command(sides, name):
    """a one-instruction method using command `name` that the analysis accepts (None if there is none)"""
    special = {"Call macro": "Macro: M\n    Mark: a\nCall macro: M", "Macro": "Macro: M\n    Mark: a",
               "Watch": "Watch: Run Time > 0 s\n    Mark: a", "Alarm": "Alarm: Run Time < 0 s\n    Mark: a",
               "Block": "Block: B\n    End block", "End block": "Block: B\n    End block", "End blocks": "Block: B\n    End blocks",
               "Simulate": "Simulate: Run Time = 1 s", "Simulate off": "Simulate: Run Time = 1 s\nSimulate off: Run Time"}
    if name in special:
        return special[name] if _accepted(sides, special[name]) else None
    for arg in ARG_CANDIDATES:
        pcode = _pcode_for(name, arg)
        if _accepted(sides, pcode):
            return pcode
    return None


def _methods_for_tag(sides, tag):
    from openpectus.lang.exec.units import get_compatible_unit_names
    t = sides.tags.get(tag)
    rhs = "1" if t.unit is None else f"1 {t.unit}"
    return [f"Watch: {tag} > {rhs}\n    Mark: a", f"Alarm: {tag} != {rhs}\n    Mark: a", f"Simulate: {tag} = {rhs}",
            f"Simulate off: {tag}", f"Watch: {tag} = x\n    Mark: a"]


def run_names(shard, tier):
    uod_name = shard["uod"]
    sides = Sides(uod_name)
    rows, viol, not_accepted, other_failures = 0, [], [], 0
    try:
        cases = []      # (what, name, pcode)
        for name in sides.commands.names:
            pcode = _method_for_command(sides, name)
            if pcode is None:
                not_accepted.append(name)
            else:
                cases.append(("command", name, pcode))
        for tag in sides.tags.names:
            for pcode in _methods_for_tag(sides, tag):
                if _accepted(sides, pcode):
                    cases.append(("tag", pcode.split(":")[0], pcode))
        for tmpl in (f"Watch: {UNDEFINED} > 1\n    Mark: a", f"Alarm: {UNDEFINED} > 1 s\n    Mark: a", f"Simulate: {UNDEFINED} = 1",
                     f"Simulate off: {UNDEFINED}", UNDEFINED, f"{UNDEFINED}: 1"):
            if _accepted(sides, tmpl):
                cases.append(("undefined", tmpl.split(":")[0] if ":" in tmpl else "command", tmpl))
    finally:
        sides.close()
    seen = set()
    for what, name, pcode in cases:
        rows += 1
        exc = run_on_engine(uod_name, pcode)
        if exc is None:
            continue
        k = failure_kind(exc)
        if k != "name":
            other_failures += 1
            continue
        sig = f"names|{what}|{name}" if what != "tag" else f"names|tag-reference|{name}"
        if sig not in seen:
            seen.add(sig)
            viol.append({"signature": sig, "detail": f"{uod_name}: analysis accepts {pcode!r}, engine run fails: {str(exc)[:300]}",
                         "witness": {"uod": uod_name, "pcode": pcode, "signature": sig, "kinds": ["name"]}})
    return {"table_rows": rows, "queries": 0, "unsat": 0, "sat": 0, "unknown": 0, "violations": viol,
            "samples": [{"uod": uod_name, "rows": rows, "no_accepted_method_found_for": not_accepted, "runs_failing_for_other_reasons": other_failures}]}


# ---------------------------------------------------------------------------------------------------------------------
# units
# ---------------------------------------------------------------------------------------------------------------------
OPS = ["<", "<=", ">", ">=", "=", "==", "!="]


def run_units(shard, tier):
    units = [None] + supported_units()
    mine = [u for i, u in enumerate(units) if i % shard["of"] == shard["part"]]
    rows, viol, accepted_pairs, seen = 0, [], 0, set()
    for ut in mine:
        uod_name = "gen_unit:" + ut if ut is not None else "gen_novol"
        sides = Sides(uod_name)
        try:
            acc = []
            for uc in units:
                for op in (OPS if tier != "quick" else [">", "="]):
                    pcode = f"Watch: T {op} 1" + (f" {uc}" if uc is not None else "") + "\n    Mark: a"
                    if _accepted(sides, pcode):
                        acc.append((uc, op, pcode))
        finally:
            sides.close()
        accepted_pairs += len({a[0] for a in acc})
        for uc, op, pcode in acc:
            rows += 1
            exc = run_on_engine(uod_name, pcode)
            if exc is None:
                continue
            if failure_kind(exc) != "units":
                continue
            sig = f"units|tag={ut}|written={uc}"
            if sig not in seen:
                seen.add(sig)
                viol.append({"signature": sig, "detail": f"tag unit {ut}, condition {pcode.splitlines()[0]!r}: accepted by the analysis, engine: {str(exc)[:300]}",
                             "witness": {"uod": uod_name, "pcode": pcode, "signature": sig, "kinds": ["units"]}})
    return {"table_rows": rows, "queries": 0, "unsat": 0, "sat": 0, "unknown": 0, "violations": viol[:40],
            "samples": [{"tag_units": mine[:4], "accepted_unit_pairs": accepted_pairs, "runs": rows}]}


OBLIGATIONS = [
    Obligation(
        name="arguments", kind="z3", run=run_arguments, replay=replay_arguments, shards=lambda tier: [{"uod": u} for u in UODS],
        encoded=["openpectus.engine.internal_commands:InternalCommandsRegistry.get_command_definitions", "openpectus.lang.exec.uod:UnitOperationDefinitionBase.create_lsp_definition",
                 "openpectus.lsp.lsp_analysis:build_commands", "openpectus.lang.exec.uod:RegexNamedArgumentParser.validate",
                 "openpectus.lang.exec.argument_specification:ArgSpec.validate_w_groups", "openpectus.lang.exec.regex:RegexNumber",
                 "openpectus.lang.exec.pinterpreter:PInterpreter.visit_InterpreterCommandNode", "openpectus.engine.command_manager:CommandManager._execute_internal_command"],
        symbolic="the argument string (z3 string, unbounded length, code points up to U+2FFFF)",
        bounds={"quick": "all strings; 4 UODs (demo, test, generated without / with volume and CV totalizers); every command the analyzer knows", "thorough": "same, cvc5 cross-check of every unsat"},
        assumptions=["regular expressions translated by symx.rx (validated against re on probe strings each run)",
                     "arguments reaching either side are stripped and contain no '#' or line break (what the line grammar can produce)",
                     "int() acceptance under-approximated by [+-]?[0-9]+", "UOD commands with a custom Python argument parser are skipped (property: regex-argument commands)",
                     "a sat witness counts only if the end-to-end replay reproduces it; non-reproducing witnesses are blocked and the query repeated (max 8)"]),
    Obligation(
        name="names", kind="finite", run=run_names, replay=replay_e2e, decides="table", shards=lambda tier: [{"uod": u} for u in UODS],
        encoded=["openpectus.lsp.lsp_analysis:build_commands", "openpectus.lsp.lsp_analysis:build_tags", "openpectus.lang.exec.analyzer:SemanticCheckAnalyzer.analyze",
                 "openpectus.engine.engine:Engine.tick", "openpectus.lang.exec.pinterpreter:PInterpreter.tick"],
        symbolic="none (finite table from live objects, decided by real analysis + real engine runs)",
        bounds={"quick": "every command name and every tag name (5 referencing instructions) the analyzer knows, plus one undefined name in 6 positions; 4 UODs", "thorough": "same"},
        assumptions=["one-instruction methods; Start + 12 ticks of 0.1 s", "engine failures that are not about an undefined name are not claimed"]),
    Obligation(
        name="units", kind="finite", run=run_units, replay=replay_e2e, decides="table", shards=lambda tier: [{"part": i, "of": 8} for i in range(8)],
        encoded=["openpectus.lang.exec.analyzer:ConditionCheckAnalyzer.analyze_condition", "openpectus.lang.exec.units:are_comparable",
                 "openpectus.lang.exec.units:compare_values", "openpectus.lang.exec.pinterpreter:PInterpreter._evaluate_condition"],
        symbolic="none (finite table over the live unit table, decided by real analysis + real engine runs)",
        bounds={"quick": "every ordered pair (tag unit, written unit) of supported units incl. none; operators > and =", "thorough": "same with all 7 operators"},
        assumptions=["tag T has the numeric value 1.0; condition value 1", "engine failures that are not about units are not claimed"]),
]

MANIFEST = {
    "level": "model_checking",
    "text": "Argument agreement: for every command the analyzer knows (4 UODs: demo, test, two generated ones), the language accepted by the analyzer's validator is included in the language the engine accepts, decided by z3 regular-expression inclusion queries over all strings on languages translated from the live regexes (re.search vs re.match semantics, Base units read from the UOD's base_unit_provider, int() for Run counter); every sat witness is replayed end to end (real analysis without errors, real engine run failing on the argument). Name and unit agreement are exhaustive finite tables over the live command/tag sets and the live unit table, each row decided by a real analysis plus a real engine run.",
    "note": "Obligation arguments is a solver proof over all strings (unsat = inclusion for all strings of code points <= U+2FFFF; trusted: z3, the symx.rx translator which is validated against re on probe strings each run, cvc5 cross-check in the thorough tier). Obligations names and units are tables decided by concrete runs (one-instruction methods, Start + 12 ticks). UOD commands with custom Python argument parsers are outside the property (regex-argument commands). int() acceptance is under-approximated.",
    "technique": "z3 regular-expression language inclusion over encodings extracted from live repo objects, witness replay on the real analyzer and engine; exhaustive finite tables decided by real runs",
}
