"""C13  Engine ticks never crash; method errors pause the run; the engine stays responsive.

Real code: the whole engine (Engine.tick and everything below it, Engine.set_method, set_error_state, inject_code).

Inputs: methods assembled from a catalogue of ~45 malformed / odd / valid line groups (unknown commands and tags, bad
units and arguments, missing colons, indentation errors, recursive and missing macros, End block outside a block, bad
thresholds, ...), chosen by solver selectors; optionally one injected snippet from the same catalogue and one user
control command at a solver-chosen tick.
Bound stated plainly: the catalogue, not "any text" (arbitrary text reaches only the parser: C17).

Obligation `symbolic`: CrossHair explores the selector space (logging statements removed).  Obligation
`logging_intact`: the same harness body run concretely over the selector space on the unmodified modules, so crashes
inside log message formatting are not lost (decided concretely, labelled so).
"""
import itertools

from symx import Violation
from symx.obligation import Obligation
from props.engine_common import engine_rig, CONTROL

CATALOGUE = [
    "Mark: A", "Foo", "Foo: bar", "CmdA: x", "SetOut1: abc", "Watch: Nope > 1\n    Mark: X", "Watch: In1 > 1 m\n    Mark: X",
    "Watch: In1 >\n    Mark: X", "Watch\n    Mark: X", "Alarm: In1 = x\n    Mark: X", "Simulate: Nope = 1", "Simulate off: Nope",
    "Simulate: In1 = 1 kg", "Call macro: Missing", "End block", "End blocks", "Wait: abc", "Wait", "Base: xyz", "Run counter: x",
    "Pause: 1 kg", "Hold: abc", "Block", "    Mark: Indented", "1.x Mark: A", "0.0 Mark: T", "Macro: R\n    Call macro: R\nCall macro: R",
    "Macro: P\n    Call macro: Q\nMacro: Q\n    Call macro: P\nCall macro: P", "Info: hello", "Error: x", "Warning", "Stop", "Restart",
    "# comment", "", "Increment run counter: 5", "Notify: hi", "Batch: B1", ":", "Mark:", "Watch: > 3\n    Mark: X",
    "Block: B\n    End block\n    Mark: after", "Block: B\n  Mark: two spaces", "Simulate: In1 = 3", "Watch: In1 > 0\n    Foo",
    "Alarm: In1 > 0\n    Foo", "Alarm: In1 > 0\n    Mark: A1\n    Foo: x\n    Mark: A2", "Macro: F\n    Foo\nCall macro: F",
]
N_TICKS = 12


def _scenario(sym, mode_note=""):
    import openpectus.protocol.models as Mdl
    ids = sym.shard.get("first", None)
    a = ids if ids is not None else sym.index("la", len(CATALOGUE))
    inj = sym.shard.get("inject", False)
    # with an injection or a user command the second line group is fixed by the shard (keeps the shard exhaustible)
    b = sym.shard["second"] if sym.shard.get("second") is not None else sym.index("lb", len(CATALOGUE))
    pcode = CATALOGUE[a] + "\n" + CATALOGUE[b] + "\n"
    if sym.shard.get("gen"):
        # a method assembled by solver selectors (props/gen_methods.py) with catalogue entry `a` inserted before a solver-chosen line,
        # at that line's indentation (so the odd line also lands inside blocks and Watch bodies)
        from props.gen_methods import generate, Infeasible
        g = sym.shard["gen"]
        try:
            base = generate(sym, g["slots"], g["body"], g.get("watch", False), False, g.get("first"), g.get("blocks", 2), tuple(g.get("pre", ())))
        except Infeasible:
            sym.assume(False)
        rows = base.rstrip("\n").split("\n")
        pos = sym.index("insert_before", len(rows))
        ind = rows[pos][:len(rows[pos]) - len(rows[pos].lstrip(" "))]
        bad = [ind + r for r in CATALOGUE[a].split("\n")]
        pcode = "\n".join(rows[:pos] + bad + rows[pos:]) + "\n"
    if sym.shard.get("three"):
        c = sym.index("lc", len(CATALOGUE))
        pcode += CATALOGUE[c] + "\n"
    ctl = sym.shard.get("control", "none")
    ctl_tick = sym.int("ctl_tick", 2, 8) if ctl != "none" else None
    inj_idx = sym.index("inj", len(CATALOGUE)) if inj else None
    inj_tick = sym.int("inj_tick", 2, 8) if inj else None
    inj_text = CATALOGUE[inj_idx] if inj_idx is not None else None
    desc = f"method {pcode!r} control={ctl} inject={inj_text!r}"
    with engine_rig(sym, None) as rig:
        e = rig.engine
        try:
            e.set_method(Mdl.Method.from_pcode(pcode))
        except Exception as ex:
            sym.check(False, f"set_method-raised|{type(ex).__name__}", f"{desc}: set_method raised {ex!r}")
        e.uod.hwl.mem["In1"] = 1
        rig.user("Start")
        saw_error = False
        restart_seen = False
        for i in range(N_TICKS):
            if ctl_tick is not None and ctl_tick == i:
                rig.user(ctl)
            if inj_tick is not None and inj_tick == i:
                try:
                    e.inject_code(CATALOGUE[inj_idx])
                except Exception:
                    pass        # a snippet that does not parse is refused with an exception: allowed
            rig.tick(0.1)
            sym.check(not rig.tick_errors, f"tick-raised|{type(rig.tick_errors[0]).__name__ if rig.tick_errors else ''}",
                      lambda: f"{desc}: Engine.tick raised {rig.tick_errors[0]!r} at tick {i}")
            restarting_now = rig.system_state == "Restarting" or e.registry.get_running_command("Restart") is not None
            restart_seen = restart_seen or restarting_now
            # (a Restart tears the failing run down and starts a new one; the engine keeps its last error across the
            #  restart, so the 'error => paused' reading is only judged on runs without a Restart)
            if e.has_error_state() and not saw_error and rig.system_state not in ("Stopped", "Restarting") and not restart_seen:
                saw_error = True
                sym.check(rig.system_state == "Paused", "error-did-not-pause", lambda: f"{desc}: method error but System State {rig.system_state}")
                sym.check(str(rig.tag("Method Status")) == "Error", "method-status-not-error",
                          lambda: f"{desc}: method error but Method Status {rig.tag('Method Status')!r}")
            if saw_error and ctl == "none" and not inj and not restart_seen and rig.system_state == "Paused" and str(rig.tag("Method Status")) == "Error":
                # the failing instruction is marked as failed in the method state for as long as the run is paused on that error
                failed = list(rig.method_state().failed_line_ids)
                sym.check(len(failed) > 0, "failed-instruction-not-marked",
                          lambda: f"{desc}: tick {i}: run paused with Method Status Error ({e.get_error_state_exception()!r}) but the method state marks no line as failed")
        sym.reach()
        # the engine stays responsive: Stop is accepted and completes, a corrected method is accepted and runs
        for _ in range(4):
            # (Stop is not a valid command in the transient state Restarting -- C06's gating rule; the user asks again)
            if rig.system_state != "Restarting":
                break
            rig.tick(0.1)
        if rig.system_state != "Stopped":
            refused = rig.user("Stop")
            sym.check(refused is None, "stop-refused", lambda: f"{desc}: Stop refused in state {rig.system_state}: {refused!r}")
            concurrent_restart = False
            for _ in range(4):
                rig.tick(0.1)
                concurrent_restart = concurrent_restart or rig.system_state == "Restarting" or e.registry.get_running_command("Restart") is not None
            sym.check(not rig.tick_errors, "tick-raised-during-stop", lambda: f"{desc}: {rig.tick_errors[:1]}")
            sym.check(rig.system_state == "Stopped", "stop-lost-to-concurrent-restart" if concurrent_restart else "stop-did-not-complete",
                      lambda: f"{desc}: after an accepted Stop + 4 ticks System State is {rig.system_state}")
        if rig.system_state == "Stopped":
            try:
                e.set_method(Mdl.Method.from_pcode("Mark: FIXED\n"))
            except Exception as ex:
                sym.check(False, "corrected-method-refused", f"{desc}: corrected method refused: {ex!r}")
            refused = rig.user("Start")
            sym.check(refused is None, "start-refused-after-stop", lambda: f"{desc}: Start refused after Stop: {refused!r} (state {rig.system_state})")
            for _ in range(6):
                rig.tick(0.1)
            sym.check(not rig.tick_errors, "tick-raised-after-correction", lambda: f"{desc}: {rig.tick_errors[:1]}")
            sym.check("FIXED" in rig.marks(), "corrected-method-did-not-run", lambda: f"{desc}: corrected method did not run, marks {rig.marks()}, state {rig.system_state}")
            # a later failing instruction in the same engine lifetime pauses the run again: reload the original method
            if saw_error and ctl == "none" and not inj and not restart_seen:
                rig.user("Stop")
                for _ in range(3):
                    rig.tick(0.1)
                if rig.system_state == "Stopped":
                    try:
                        e.set_method(Mdl.Method.from_pcode(pcode))
                    except Exception as ex:
                        sym.check(False, "reload-of-method-refused", f"{desc}: {ex!r}")
                    rig.user("Start")
                    paused_again = False
                    for _ in range(N_TICKS):
                        rig.tick(0.1)
                        if rig.system_state == "Paused" and str(rig.tag("Method Status")) == "Error":
                            paused_again = True
                    sym.check(not rig.tick_errors, "tick-raised-in-second-run", lambda: f"{desc}: {rig.tick_errors[:1]}")
                    sym.check(paused_again, "second-error-did-not-pause",
                              lambda: f"{desc}: the same failing method paused the first run with an error but not a later run of the same engine (state {rig.system_state}, status {rig.tag('Method Status')!r})")


def harness(sym):
    _scenario(sym)


def _shards(tier):
    out = []
    n = len(CATALOGUE)
    for a in range(n):
        out.append({"first": a})
    for a in range(0, n, 6 if tier == "quick" else 1):
        for c in (["Pause", "Stop"] if tier == "quick" else CONTROL):
            out.append({"first": a, "control": c, "second": (a * 5 + 3) % n})
    for a in range(0, n, 5 if tier == "quick" else 1):
        out.append({"first": a, "inject": True, "second": (a * 7 + 1) % n})
    if tier != "quick":
        for a in range(0, n, 4):
            out.append({"first": a, "three": True})
    # odd lines inside generated methods (blocks, Watch bodies)
    gens = [{"slots": 2, "body": 2, "blocks": 1, "first": "block", "watch": False}] if tier == "quick" else \
           [{"slots": 2, "body": 2, "blocks": 1, "first": "block", "watch": True}, {"slots": 2, "body": 2, "blocks": 1, "first": "watch", "watch": True}]
    firsts = [1, 5, 12, 23] if tier == "quick" else [i for i in range(n) if "\n" not in CATALOGUE[i] or CATALOGUE[i].startswith(("Watch", "Block"))]
    for g in gens:
        for a in firsts:
            for p0 in range(7):
                out.append({"first": a, "second": 0, "gen": dict(g, pre=[p0])})
    return out


def run_concrete(shard, tier):
    """Same scenario, concrete, unmodified modules with logging calls intact (f-strings are evaluated)."""
    import logging
    from symx.sym import ReplaySym
    logging.disable(logging.CRITICAL)
    n = len(CATALOGUE)
    rows, viol = 0, []
    bs = range(n) if tier != "quick" else range(0, n, 2)
    for b in bs:
        # (for shards that fix the second line, b enumerates the injected snippet instead)
        s = ReplaySym({"lb": b, "ctl_tick": 4, "inj": b if shard.get("second") is not None else (b * 7) % n, "inj_tick": 5}, dict(shard))
        rows += 1
        try:
            _scenario(s)
        except Violation as v:
            viol.append({"signature": v.signature, "detail": str(v.detail)[:500], "witness": dict(s.witness)})
    return {"table_rows": rows, "violations": viol, "samples": [{"first": shard.get("first"), "second_lines": len(list(bs))}]}


def _shards_concrete(tier):
    n = len(CATALOGUE)
    return [{"first": a} for a in range(n)] + [{"first": a, "inject": True, "second": (a * 7 + 1) % n} for a in range(0, n, 5)]


OBLIGATIONS = [
    Obligation(name="symbolic", kind="crosshair", harness=harness, shards=_shards, cpu_budget={"quick": 400.0, "thorough": 2400.0},
               encoded=["openpectus.engine.engine:Engine.tick", "openpectus.engine.engine:Engine.set_error_state", "openpectus.engine.engine:Engine.set_method",
                        "openpectus.engine.engine:Engine.inject_code", "openpectus.lang.exec.pinterpreter:PInterpreter.tick",
                        "openpectus.engine.command_manager:CommandManager.tick"],
               symbolic="selectors over the line-group catalogue for each method line and the injected snippet; tick of the user command / injection",
               bounds={"quick": "4 catalogue entries (unknown instruction, Watch on an unknown tag, bad unit, stray indentation) inserted at every line position of solver-assembled methods with a block (props/gen_methods.py); 2-line-group methods over a 45-entry catalogue (all pairs), + {Pause, Stop} at ticks 2..8 and injections for a subset of first lines; 12 ticks then Stop, corrected method, 6 ticks",
                       "thorough": "all 7 control commands for every first line, injections for every second first line, 3-group methods for every fourth; every single-line catalogue entry inserted at every line position of the generated methods (block first / Watch first)"},
               assumptions=["the catalogue bounds 'any method text'", "hardware and UOD callbacks return values in their declared domains (fake hardware; SetOut1 raises ValueError on a non-numeric argument, which is a command failure, not a callback contract breach)",
                            "log statements removed at import in this obligation (see logging_intact)"]),
    Obligation(name="logging_intact", kind="finite", run=run_concrete, shards=_shards_concrete, decides="concrete",
               replay=lambda w, sh: _scenario(__import__("symx.sym", fromlist=["ReplaySym"]).ReplaySym(w, sh)),
               encoded=["openpectus.engine.engine:Engine.tick"],
               symbolic="none (concrete enumeration of the selector space)",
               bounds={"quick": "every first line x every second second-line, unmodified modules", "thorough": "all pairs"},
               assumptions=["concrete decision: this obligation enumerates, it is not a solver result"]),
]

MANIFEST = {
    "level": "model_checking",
    "text": "Bounded exhaustive exploration (CrossHair/z3 over selector variables; one path per combination, infeasible ones pruned) of the real engine on methods assembled from a 45-entry catalogue of malformed and odd instructions, with user commands and injected snippets at solver-chosen ticks: Engine.tick never raises, errors pause with Method Status Error, Stop and a corrected method work afterwards. A concrete pass repeats the space with logging intact.",
    "note": "The inputs are discrete, so the solver acts as an enumerator here; 'any method text' is bounded to the catalogue.",
    "technique": "symbolic execution of the real engine (CrossHair + z3) over a catalogue-selector space, plus concrete re-run with logging intact, counterexample replay",
}
