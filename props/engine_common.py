"""Shared rig for the engine-level properties: a real Engine (real interpreter, command manager, method
manager, tags) driven tick by tick with harness-chosen (possibly symbolic) tick times, on top of a
recording hardware layer and instrumented UOD commands.

Everything here is test-double / observer code; all behaviour under test is the repo's.
"""
from __future__ import annotations

import contextlib

T0 = 1000.0

CONTROL = ["Start", "Stop", "Pause", "Unpause", "Hold", "Unhold", "Restart"]


class Rec:
    """Recorder shared by the fake hardware and the instrumented UOD commands."""

    def __init__(self):
        self.writes = []      # (tick_no, {register: value}) per write_batch call
        self.uod = []         # (tick_no, command, instance_id, event)  event in init/exec/final
        self.tick_no = -1
        self.now = T0         # engine time of the current tick (for UOD callbacks that stamp tag values)


def make_uod(rec: Rec, durations: dict, out_values: dict | None = None, fail_at: dict | None = None, overlaps=None, accumulators=False):
    """UOD with
       registers Out1 (write, safe_value=0), Out2 (write, no safe value), In1 (read)
       commands  CmdA, CmdB, CmdC (CmdB/CmdC overlap), each running `durations[name]` iterations (>=1),
                 SetOut1 (writes its argument or out_values['SetOut1'] to Out1 on every iteration for durations['SetOut1'] iterations)
    """
    from openpectus.engine.hardware import HardwareLayerBase, Register, RegisterDirection
    from openpectus.lang.exec.tags import Tag, TagDirection
    from openpectus.lang.exec.uod import UodBuilder, UodCommand
    out_values = out_values if out_values is not None else {}
    fail_at = fail_at if fail_at is not None else {}

    class RecHW(HardwareLayerBase):
        def __init__(self):
            super().__init__()
            self.mem = {}
            self._is_connected = True

        def read(self, r):
            return self.mem.get(r.name, 0)

        def write(self, value, r):
            self.mem[r.name] = value

        def write_batch(self, values, registers):
            rec.writes.append((rec.tick_no, {r.name: v for v, r in zip(values, registers)}))
            for v, r in zip(values, registers):
                self.mem[r.name] = v

        def connect(self):
            self._is_connected = True

    def mk_cmd(name):
        def init_fn(cmd: UodCommand):
            rec.uod.append((rec.tick_no, name, cmd.instance_id, "init"))

        def exec_fn(cmd: UodCommand, **kw):
            rec.uod.append((rec.tick_no, name, cmd.instance_id, "exec"))
            it = cmd.get_iteration_count()
            if name in fail_at and it == fail_at[name]:
                raise ValueError(f"{name} failed by harness at iteration {it}")
            if name == "SetOut1":
                v = out_values.get("SetOut1")
                if v is None:
                    v = int(kw.get("value") or 0)
                cmd.context.tags["Out1"].set_value(v, rec.now)
            if it + 1 >= durations.get(name, 1):
                cmd.set_complete()

        def final_fn(cmd: UodCommand):
            rec.uod.append((rec.tick_no, name, cmd.instance_id, "final"))
        return init_fn, exec_fn, final_fn

    b = (UodBuilder()
         .with_instrument("SymUod").with_author("symx", "symx@example.org").with_filename(__file__)
         .with_hardware(RecHW()).with_location("verif")
         .with_hardware_register("Out1", RegisterDirection.Write, safe_value=0)
         .with_hardware_register("Out2", RegisterDirection.Write)
         .with_hardware_register("In1", RegisterDirection.Read)
         .with_tag(Tag("Out1", value=0, unit=None, direction=TagDirection.Output))
         .with_tag(Tag("Out2", value=0, unit=None, direction=TagDirection.Output))
         .with_tag(Tag("In1", value=0, unit=None, direction=TagDirection.Input)))
    if accumulators:
        # totalizer (register Tot, litres) + column volume: Base units L / mL / CV with the Accumulated / Block Volume and CV tags
        b = (b.with_hardware_register("Tot", RegisterDirection.Read)
             .with_tag(Tag("Tot", value=0.0, unit="L", direction=TagDirection.Input))
             .with_tag(Tag("ColVol", value=2.0, unit="L", direction=TagDirection.NA))
             .with_accumulated_volume("Tot").with_accumulated_cv("ColVol", "Tot"))
    for name in ("CmdA", "CmdB", "CmdC", "SetOut1"):
        i, e, f = mk_cmd(name)
        b = b.with_command(name=name, exec_fn=e, init_fn=i, finalize_fn=f)
    for ov in (overlaps if overlaps is not None else [["CmdB", "CmdC"]]):
        b = b.with_command_overlap(list(ov))
    uod = b.build()
    uod.hwl.connect()
    return uod


class Rig:
    """One engine + observers.  Use `with engine_rig(sym, pcode, ...) as rig:`."""

    def __init__(self, sym, pcode: str, durations=None, out_values=None, fail_at=None, numbered=False, overlaps=None, accumulators=False):
        import openpectus.protocol.models as Mdl
        from openpectus.engine.engine import Engine, EngineTiming
        from openpectus.lang.exec.clock import WallClock
        from openpectus.lang.exec.timer import NullTimer
        self.sym = sym
        self.rec = Rec()
        self.durations = durations if durations is not None else {}
        self.out_values = out_values if out_values is not None else {}
        self.tick_errors = []      # exceptions escaping Engine.tick
        with sym.concrete():
            uod = make_uod(self.rec, self.durations, self.out_values, fail_at, overlaps, accumulators)
            self.engine = Engine(uod, EngineTiming(WallClock(), NullTimer(), 0.1, 1.0))
            for t in self.engine._iter_all_tags():
                t.format_fn = None
            self.engine.run(skip_timer_start=True)
            if pcode is not None:
                self.method = Mdl.Method.from_numbered_pcode(pcode) if numbered else Mdl.Method.from_pcode(pcode)
                self.engine.set_method(self.method)
        self.now = T0
        self.ticks = 0

    # -- driving ---------------------------------------------------------------------------------
    def tick(self, dt=0.1):
        self.now = self.now + dt
        self.rec.tick_no = self.engine._tick_number + 1
        self.rec.now = self.now
        try:
            self.engine.tick(self.now, dt)
        except Exception as ex:  # never BaseException (CrossHair control flow)
            self.tick_errors.append(ex)
        self.ticks += 1

    def user(self, name: str):
        """User control command; returns None if accepted, the exception if refused."""
        try:
            self.engine.execute_control_command_from_user(name)
            return None
        except Exception as ex:
            return ex

    # -- observation -----------------------------------------------------------------------------
    def tag(self, name):
        return self.engine.tags[name].get_value()

    @property
    def system_state(self):
        return str(self.tag("System State"))

    def marks(self):
        v = self.tag("Mark")
        return [] if not v else str(v).split("; ")

    def method_state(self):
        return self.engine.method_manager.get_method_state()

    def runlog(self):
        return self.engine.tracking.get_runlog()

    def close(self):
        """Close live generators so their `finally:` blocks do not run at GC time after the path ended."""
        try:
            interp = self.engine._interpreter
            if interp is not None:
                for intr in list(interp._interrupts_map.values()):
                    with contextlib.suppress(Exception):
                        intr.actions.close()
                with contextlib.suppress(Exception):
                    interp._generator.close()
            with contextlib.suppress(Exception):
                self.engine.registry.__exit__(None, None, None)
        except Exception:
            pass


@contextlib.contextmanager
def engine_rig(sym, pcode, **kw):
    rig = Rig(sym, pcode, **kw)
    try:
        yield rig
    finally:
        rig.close()


def expected_system_state(e) -> str:
    """System State as the property statement defines it from the run-state flags."""
    from openpectus.engine.models import SystemStateEnum as S
    if not e._runstate_started:
        return str(S.Stopped)
    if e._runstate_paused:
        return str(S.Paused)
    if e._runstate_holding:
        return str(S.Holding)
    return str(S.Running)
