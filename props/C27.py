"""C27  Engine messages survive disconnects without loss or duplication.

Real code: openpectus.engine.engine_runner.EngineRunner (all coroutines: run, _tick, _connect_async, _disconnect_async,
_post_async, _set_state, _send_buffered_batch, _buffer_message, buffer_messages, steady_state_send_messages, on_start,
on_stop, shutdown), AsyncTimer, and EngineDispatcher.assign_sequence_number -- running as real asyncio tasks on a
virtual-time event loop (a SelectorEventLoop whose selector never waits: the clock jumps to the next timer).

Environment (harness): a dispatcher whose connect_async / send_async fail according to solver-chosen bits and take a
solver-chosen latency, a message builder that produces numbered messages, the reconnect back-off (random.uniform in
_tick) chosen by the solver, and engine events (run start / run stop) injected at solver-chosen virtual times.

Connection model (the real send_async raises ProtocolNetworkException only for a *closed connection*): one FIFO
connection per successful connect.  A send on an open connection is delivered at the moment send_async is called
(order of calls = order of arrival); its acknowledgement arrives one latency later.  The connection breaks at a
solver-chosen send attempt: that attempt and every later one deliver nothing, every send still waiting for its
acknowledgement loses it (delivered, but the caller sees an exception: the one legitimate source of duplicates), and
all of them raise, in call order, one detection delay after the break.  Connect attempts fail per solver-chosen bit.
"""
from __future__ import annotations

from symx.obligation import Obligation
from props.io_common import tracing

LEVEL = "exploration"

LATENCIES = [0.03125, 0.15625, 0.34375]      # shorter than a runner tick / between one and two ticks / longer than the steady-state period
DETECTION = [0.0, 0.140625]                  # how long after the break the pending and new sends raise
BACKOFFS = [0.5, 0.84375]                    # random.uniform(0.5, 10) in _tick: two values with different phase to the 0.1 s tick grid
STOP_OFFSETS = [0.046875, 0.171875, 0.421875, 0.671875, 0.921875, 1.296875, 1.796875, 2.546875]   # run stop, seconds after the fault window opens
ARM_TIMES = [0.640625, 0.796875, 1.015625]   # when the fault window opens (run starts at 0.5)
METHOD_LATENCIES = [0.03125, 5.53125]          # acknowledgement of a catch-up round's MethodMsg: short / longer than the 5 s buffer_messages period
HORIZON = 40.0


def _make_loop():
    import asyncio
    import selectors

    class VSelector:
        """Selector that never waits: virtual time jumps to the next timer.  No real I/O is ever ready."""

        def __init__(self):
            self._real = selectors.DefaultSelector()
            self.loop = None

        def register(self, *a, **k):
            return self._real.register(*a, **k)

        def unregister(self, *a, **k):
            return self._real.unregister(*a, **k)

        def modify(self, *a, **k):
            return self._real.modify(*a, **k)

        def get_map(self):
            return self._real.get_map()

        def get_key(self, f):
            return self._real.get_key(f)

        def close(self):
            self._real.close()

        def select(self, timeout=None):
            loop = self.loop
            if loop._ready:
                return []
            if loop._scheduled:
                when = loop._scheduled[0]._when
                if when > loop._vnow:
                    loop._vnow = when
                return []
            raise RuntimeError("virtual loop: nothing ready and no timer (deadlock)")

    class VLoop(asyncio.SelectorEventLoop):
        def __init__(self):
            sel = VSelector()
            super().__init__(selector=sel)
            sel.loop = self
            self._vnow = 0.0

        def time(self):
            return self._vnow

    return VLoop()


class _Env:
    """Recorder + solver-driven environment decisions."""

    def __init__(self, sym, nbits, ncbits):
        self.sym = sym
        self.log = []            # (kind, message index, extra) in global order
        self.msgs = []           # produced messages: dict(msg, kind, run, created)
        self.by_id = {}
        self.armed = False
        self.send_bits_left = nbits
        self.conn_bits_left = ncbits
        self.n_send_bits = 0
        self.n_conn_bits = 0
        self.n_lat = 0
        self.n_back = 0
        self.n_det = 0
        self.in_flight = 0
        self.method_bits_left = 0
        self.n_method_bits = 0
        self.method_lat_left = 0
        self.n_method_lat = 0
        self.max_lat_draws = 2
        self.max_det_draws = 1
        self.max_back_draws = 1

    # ---- decisions -------------------------------------------------------------------------------
    def breaks_now(self):
        """Does the connection break just before this send attempt?"""
        if not self.armed or self.send_bits_left <= 0:
            return False
        self.send_bits_left -= 1
        self.n_send_bits += 1
        with tracing(self.sym):
            return True if self.sym.bool(f"break_at_send{self.n_send_bits}") else False

    def method_breaks_now(self):
        """Does the connection break just before this MethodMsg (the message that opens every catch-up round)?"""
        if not self.armed or self.method_bits_left <= 0:
            return False
        self.method_bits_left -= 1
        self.n_method_bits += 1
        with tracing(self.sym):
            return True if self.sym.bool(f"break_at_method_msg{self.n_method_bits}") else False

    def method_latency(self):
        """Acknowledgement latency of a MethodMsg: short, or longer than the 5 s period of buffer_messages."""
        if not self.armed or self.method_lat_left <= 0:
            return LATENCIES[0]
        self.method_lat_left -= 1
        self.n_method_lat += 1
        with tracing(self.sym):
            return METHOD_LATENCIES[self.sym.index(f"method_latency{self.n_method_lat}", len(METHOD_LATENCIES))]

    def connect_fails(self):
        if not self.armed or self.conn_bits_left <= 0:
            return False
        self.conn_bits_left -= 1
        self.n_conn_bits += 1
        with tracing(self.sym):
            return True if self.sym.bool(f"connect_fail{self.n_conn_bits}") else False

    def latency(self):
        if not self.armed or self.n_lat >= self.max_lat_draws:
            return LATENCIES[0]
        self.n_lat += 1
        with tracing(self.sym):
            return LATENCIES[self.sym.index(f"latency{self.n_lat}", len(LATENCIES))]

    def detection(self):
        self.n_det += 1
        if self.n_det > self.max_det_draws:
            return DETECTION[0]
        with tracing(self.sym):
            return DETECTION[self.sym.index(f"detection{self.n_det}", len(DETECTION))]

    def backoff(self):
        if self.n_back >= self.max_back_draws:
            return BACKOFFS[0]
        self.n_back += 1
        with tracing(self.sym):
            return BACKOFFS[self.sym.index(f"backoff{self.n_back}", len(BACKOFFS))]

    # ---- recording -------------------------------------------------------------------------------
    def produced(self, msg, kind, run=None):
        i = len(self.msgs)
        self.msgs.append({"msg": msg, "kind": kind, "run": run, "created": len(self.log)})
        self.by_id[id(msg)] = i
        self.log.append(("create", i, None))
        return msg

    def event(self, kind, msg, extra=None):
        self.log.append((kind, self.by_id.get(id(msg), -1), extra))


def _make_parts(env):
    import asyncio
    import openpectus.protocol.engine_messages as EM
    import openpectus.protocol.messages as M
    from openpectus.protocol.engine_dispatcher import EngineDispatcher
    from openpectus.protocol.exceptions import ProtocolNetworkException

    class FakeDispatcher(EngineDispatcher):
        """Real assign_sequence_number; connect/send replaced by the connection model of the module docstring."""

        def __init__(self):            # the real __init__ builds URLs and SSL contexts
            self._sequence_number = 1
            self._engine_id = "engine-1"
            self.up = False
            self.pending = []          # futures of sends waiting for their acknowledgement, in call order
            self.broken_at = None      # virtual time at which the pending and new sends of the broken connection raise
            self.victims = []          # sends that will raise at broken_at, in call order
            self.victims_failed = True

        async def connect_async(self):
            fail = env.connect_fails()
            await asyncio.sleep(env.latency())
            if fail:
                raise ProtocolNetworkException("connect failed")
            self._engine_id = "engine-1"
            self.up = True
            self.broken_at = None

        async def disconnect_async(self):
            self._break(0.0)

        def _break(self, detection):
            if not self.up:
                return
            self.up = False
            loop = asyncio.get_running_loop()
            self.broken_at = loop.time() + detection
            self.victims, self.pending = self.pending, []
            self.victims_failed = False

            def fail_all():                      # one event per break: every affected send raises, in call order
                self.victims_failed = True
                victims, self.victims = self.victims, []
                for fut in victims:
                    if not fut.done():
                        fut.set_exception(ProtocolNetworkException("Connection closed"))
            if detection > 0:
                loop.call_later(detection, fail_all)
            else:
                fail_all()

        async def send_async(self, message):
            # as the real send_async: engine id and sequence number are assigned before anything can fail
            message.engine_id = self._engine_id or "engine-1"
            self.assign_sequence_number(message)
            loop = asyncio.get_running_loop()
            is_method = env.msgs[env.by_id[id(message)]]["kind"] == "method" if id(message) in env.by_id else False
            if self.up and (env.breaks_now() or (is_method and env.method_breaks_now())):
                self._break(env.detection())
            env.event("attempt", message, message.sequence_number)
            fut = loop.create_future()
            if self.up:
                env.event("deliver", message, message.sequence_number)
                self.pending.append(fut)
                lat = env.method_latency() if is_method and env.method_lat_left > 0 else env.latency()

                def ack():
                    if not fut.done():
                        fut.set_result(None)
                        if fut in self.pending:
                            self.pending.remove(fut)
                loop.call_later(lat, ack)
            elif not self.victims_failed:
                self.victims.append(fut)         # raises together with the others, behind them
            else:
                loop.call_soon(lambda: fut.done() or fut.set_exception(ProtocolNetworkException("Connection closed")))
            env.in_flight += 1
            try:
                await fut
            except ProtocolNetworkException:
                env.event("fail", message, None)
                raise
            finally:
                env.in_flight -= 1
            return M.SuccessMessage()

    class FakeBuilder:
        """Numbered messages of the real classes (model_construct: no pydantic validation cost)."""

        def create_uod_info(self):
            return env.produced(EM.UodInfoMsg.model_construct(), "uod_info")

        def create_tag_updates_snapshot_msg(self):
            return env.produced(EM.TagsUpdatedMsg.model_construct(tags=[], run_id=None), "snapshot")

        def create_tag_updates_msg(self, run_id):
            return env.produced(EM.TagsUpdatedMsg.model_construct(tags=[], run_id=run_id), "tags", run_id)

        def create_method_state_msg(self):
            return None if env.sparse else env.produced(EM.MethodStateMsg.model_construct(), "method_state")

        def create_error_log_msg(self):
            return None

        def create_control_state_msg(self):
            return None if env.sparse else env.produced(EM.ControlStateMsg.model_construct(), "control_state")

        def create_runlog_msg(self, run_id):
            return env.produced(EM.RunLogMsg.model_construct(id="", run_id=run_id), "runlog", run_id)

        def create_method_msg(self):
            return env.produced(EM.MethodMsg.model_construct(), "method")

        def create_run_started_msg(self, run_id, tick_time):
            return env.produced(EM.RunStartedMsg.model_construct(run_id=run_id, started_tick=0.0), "run_started", run_id)

        def create_wpn_run_started_msg(self):
            return env.produced(EM.WebPushNotificationMsg.model_construct(), "wpn")

        def create_run_stopped_msg(self, run_id):
            return env.produced(EM.RunStoppedMsg.model_construct(run_id=run_id), "run_stopped", run_id)

        def create_wpn_run_stopped_msg(self):
            return env.produced(EM.WebPushNotificationMsg.model_construct(), "wpn")

    class FakeEmitter:
        def add_listener(self, listener):
            pass

    class Rnd:
        @staticmethod
        def uniform(a, b):
            return env.backoff()

    return FakeDispatcher(), FakeBuilder(), FakeEmitter(), Rnd()


def _scenario(sym):
    """Runs the real EngineRunner under the scenario of this shard; returns (env, runner facts)."""
    import asyncio
    import openpectus.engine.engine_runner as ER
    sh = sym.shard
    env = _Env(sym, sh.get("send_bits", 3), sh.get("connect_bits", 1))
    env.sparse = sh.get("sparse", True)
    env.max_lat_draws = sh.get("latency_draws", 2)
    env.max_det_draws = sh.get("detection_draws", 1)
    env.max_back_draws = sh.get("backoff_draws", 1)
    env.method_bits_left = sh.get("method_bits", 0)
    env.method_lat_left = sh.get("method_latency_draws", 0)
    arm_at = ARM_TIMES[sh["arm"]]
    stop_at = arm_at + STOP_OFFSETS[sh["stop"]]
    facts = {"reconnected_with_buffer": [], "states": [], "end_state": None, "end_buffer": None, "quiescent_at": None,
             "errors": []}
    loop = _make_loop()
    orig_random = ER.random
    old_loop = None

    async def sleep_until(t):
        d = t - loop.time()
        if d > 0:
            await asyncio.sleep(d)

    async def main():
        disp, builder, emitter, rnd = _make_parts(env)
        ER.random = rnd
        runner = ER.EngineRunner(disp, builder, emitter, loop)        # type: ignore[arg-type]
        orig_buffer = runner._buffer_message

        def buffer_message(message):
            orig_buffer(message)
            env.event("buffer", message, message.sequence_number)
        runner._buffer_message = buffer_message                      # instrumentation only

        async def on_reconnected():
            if len(runner._message_buffer) > 0:
                facts["reconnected_with_buffer"].append(len(runner._message_buffer))
        runner.reconnected_callback = on_reconnected

        async def on_state(before, after):
            facts["states"].append(after)
            env.log.append(("state", -1, after))
        runner.state_changing_callback = on_state
        run_task = asyncio.create_task(runner.run())
        await sleep_until(0.5)
        if runner.state != "Connected":
            facts["errors"].append(f"not connected at t=0.5: {runner.state}")
        runner._on_before_start("run-1")
        runner.on_start("run-1")
        env.log.append(("run_start", -1, "run-1"))
        await sleep_until(arm_at)
        env.armed = True
        env.log.append(("armed", -1, None))
        await sleep_until(stop_at)
        runner.on_stop()
        env.log.append(("run_stop", -1, "run-1"))
        # quiescence: the runner reports steady state again (Connected / Reconnected) and nothing is in flight
        t_q = None
        while loop.time() < HORIZON:
            await asyncio.sleep(0.109375)
            steady = runner.state in ("Connected", "Reconnected")
            if steady and env.in_flight == 0:
                env.armed = False                   # no more faults: let the last round finish
                t_q = loop.time()
                break
        facts["quiescent_at"] = t_q
        facts["n_before_final"] = len(env.msgs)
        await asyncio.sleep(5.21875)                # more than one buffer_messages period (5 s) and many steady-state periods, without faults
        facts["end_state"] = runner.state
        facts["end_buffer"] = len(runner._message_buffer)
        facts["in_flight"] = env.in_flight
        while env.in_flight:                        # shut down between two sends (a shutdown that cuts a send is outside this property)
            await asyncio.sleep(0.015625)
        await runner.shutdown()
        try:
            await asyncio.wait_for(run_task, 5.0)
        except asyncio.TimeoutError:
            facts["shutdown_hung"] = True
        for t in asyncio.all_tasks():
            if t is not asyncio.current_task():
                t.cancel()

    try:
        try:
            old_loop = asyncio.get_event_loop_policy().get_event_loop()
        except Exception:
            old_loop = None
        asyncio.set_event_loop(loop)
        loop.run_until_complete(main())
    finally:
        ER.random = orig_random
        try:
            loop.run_until_complete(loop.shutdown_asyncgens())
        except Exception:
            pass
        loop.close()
        asyncio.set_event_loop(None)
    return env, facts


def _judge(env, facts):
    """[(signature, detail)] from the recorded run."""
    fails = []
    for e in facts["errors"]:
        fails.append(("harness|precondition", e))
    if facts["quiescent_at"] is None:
        fails.append(("recovery|no-steady-state-within-horizon",
                      f"no fault after the fault bits were used, yet after {HORIZON} virtual seconds the runner is in state {facts['end_state']} "
                      f"with {facts['end_buffer']} buffered messages; states: {facts['states'][-12:]}"))
        return fails
    n = len(env.msgs)

    def name(i):
        m = env.msgs[i]
        return f"#{i}:{m['kind']}" + (f"({m['run']})" if m["run"] else "")
    attempts = {i: [] for i in range(n)}
    delivered = {i: [] for i in range(n)}
    failed = {i: [] for i in range(n)}
    buffered = {i: [] for i in range(n)}
    seqs = {i: set() for i in range(n)}
    for pos, (kind, i, extra) in enumerate(env.log):
        if i < 0:
            continue
        if kind == "attempt":
            attempts[i].append(pos)
            seqs[i].add(extra)
        elif kind == "deliver":
            delivered[i].append(pos)
        elif kind == "fail":
            failed[i].append(pos)
        elif kind == "buffer":
            buffered[i].append(pos)
            seqs[i].add(extra)

    # (b) nothing stranded once caught up
    if facts["reconnected_with_buffer"]:
        fails.append(("stranded|buffer-not-empty-at-Reconnected", f"state Reconnected entered with {facts['reconnected_with_buffer'][0]} messages still buffered"))
    if facts["end_state"] in ("Connected", "Reconnected") and facts["end_buffer"]:
        last_state, how = None, []
        for kind, i, extra in env.log:
            if kind == "state":
                last_state = extra
            elif kind == "buffer" and not delivered[i] and len(how) < 3:
                how.append(f"{name(i)} buffered while state was {last_state}" + ("" if attempts[i] else " without any send attempt"))
        fails.append(("stranded|buffer-not-empty-in-steady-state",
                      f"{facts['end_buffer']} messages sit in the buffer although the runner has been in state {facts['end_state']} for over 5 s with no fault: "
                      + "; ".join(how) + f"; states: {facts['states']}"))
    # (a) every produced message delivered
    for i in range(facts["n_before_final"]):
        if not delivered[i]:
            how = "buffered" if buffered[i] else ("attempted" if attempts[i] else "never-posted")
            fails.append((f"lost|{env.msgs[i]['kind']}|{how}", f"message {name(i)} was produced but never delivered ({how}); states: {facts['states']}"))
            break
    # (c) duplicates only after a failed attempt
    for i in range(n):
        if len(delivered[i]) > 1:
            second = delivered[i][1]
            if not any(f < second for f in failed[i]):
                fails.append((f"duplicate|{env.msgs[i]['kind']}|no-failed-attempt", f"message {name(i)} delivered {len(delivered[i])} times without a failed attempt before the second delivery"))
                break
    # (d) one sequence number per message, unique
    owner = {}
    for i in range(n):
        if len(seqs[i]) > 1:
            fails.append(("sequence|changes-across-resends", f"message {name(i)} was sent with sequence numbers {sorted(seqs[i])}"))
            break
        for s in seqs[i]:
            if s in owner and owner[s] != i:
                fails.append(("sequence|shared", f"messages {name(owner[s])} and {name(i)} share sequence number {s}"))
                break
            owner[s] = i
    # (e) run data buffered for a run reaches the aggregator before that run's stop notification
    for s in range(n):
        if env.msgs[s]["kind"] != "run_stopped" or not delivered[s]:
            continue
        run = env.msgs[s]["run"]
        stop_first = delivered[s][0]
        for i in range(n):
            m = env.msgs[i]
            if m["run"] == run and m["kind"] in ("tags", "runlog", "run_started") and buffered[i] and m["created"] < env.msgs[s]["created"]:
                first = delivered[i][0] if delivered[i] else None
                if first is None or first > stop_first:
                    cls = "stop-sent-directly" if not buffered[s] or buffered[s][0] > stop_first else "stop-buffered-ahead"
                    fails.append((f"order|run-data-after-run-stopped|{cls}",
                                  f"{name(i)} was buffered (log position {buffered[i][0]}) and reached the aggregator "
                                  f"{'never' if first is None else 'at position ' + str(first)}, RunStopped({run}) at position {stop_first}; states: {facts['states']}"))
                    break
        else:
            continue
        break
    return fails


def harness(sym):
    with sym.concrete():
        env, facts = _scenario(sym)
        fails = _judge(env, facts)
        summary = {"messages": len(env.msgs), "states": facts["states"][:30], "quiescent_at": facts["quiescent_at"]}
    sym.note("run", summary)
    seen = set()
    for sig, detail in fails:
        if sig not in seen:
            seen.add(sig)
            sym.check(False, sig, detail)
    sym.reach()


def _shards(tier):
    if tier == "quick":
        return [{"arm": a, "stop": s, "send_bits": 3, "connect_bits": 1, "sparse": True, "latency_draws": 2, "detection_draws": 1, "backoff_draws": 1}
                for a in range(2) for s in range(len(STOP_OFFSETS))] + _method_shards(tier)
    return ([{"arm": a, "stop": s, "send_bits": 4, "connect_bits": 2, "sparse": True, "latency_draws": 2, "detection_draws": 2, "backoff_draws": 2}
             for a in range(len(ARM_TIMES)) for s in range(len(STOP_OFFSETS))]
            + [{"arm": 1, "stop": s, "send_bits": 3, "connect_bits": 1, "sparse": False, "latency_draws": 2, "detection_draws": 1, "backoff_draws": 1}
               for s in range(len(STOP_OFFSETS))] + _method_shards(tier))


def _method_shards(tier):
    """Faults aimed at the MethodMsg that opens every catch-up round (one ordinary break first, to leave steady state)."""
    stops = [1, 4] if tier == "quick" else range(len(STOP_OFFSETS))
    return [{"arm": a, "stop": s, "send_bits": 1, "connect_bits": 0, "sparse": True, "latency_draws": 0, "detection_draws": 1, "backoff_draws": 1,
             "method_bits": 3 if tier == "quick" else 4, "method_latency_draws": 2}
            for a in range(2 if tier == "quick" else len(ARM_TIMES)) for s in stops]


OBLIGATIONS = [Obligation(
    name="recovery", kind="crosshair", harness=harness, shards=_shards, decides="concrete",
    cpu_budget={"quick": 100.0, "thorough": 900.0}, per_path_timeout=120.0,
    encoded=["openpectus.engine.engine_runner:EngineRunner", "openpectus.engine.engine_runner:AsyncTimer",
             "openpectus.protocol.engine_dispatcher:EngineDispatcher.assign_sequence_number"],
    symbolic="for each of the first send attempts after the fault window opens: does the connection break here (symbolic booleans); failure bit of the "
             "connect attempts (symbolic booleans); acknowledgement latency of those sends, failure-detection delay and the reconnect back-off (solver selectors over catalogues of dyadic values placed below / between / above the "
             "runner's own periods 0.1 s, 0.3 s), time of the run stop relative to the fault window and the opening time of the window (shards)",
    bounds={"quick": "(MethodMsg-aimed shards: 1 break bit, then 3 break bits and 2 latency choices {short, 5.5 s} on the MethodMsg sends that open catch-up rounds) 3 break bits + 1 connect-failure bit, 2 latency choices of 3 values, 1 detection-delay choice of 2, 1 back-off choice of 2, 2 window positions x 8 stop offsets, one run (start, stop)",
            "thorough": "4 break bits + 2 connect-failure bits, 2 latency choices, 2 detection-delay choices, 2 back-off choices, 3 window positions x 8 stop offsets (sparse steady-state message set); "
                        "plus the quick-size fault budget with the full steady-state message set (control state, method state, tags, run log) for 8 stop offsets"},
    assumptions=["virtual-time event loop: the selector never waits, time jumps to the next timer; real asyncio tasks, futures, gather, shield, locks",
                 "dispatcher fake = connection model of the module docstring (FIFO connection, break at a send attempt, pending acknowledgements lost, "
                 "failures surface in call order after a detection delay); the real assign_sequence_number is used",
                 "message builder fake: numbered messages of the real classes (model_construct)",
                 "engine_runner.random replaced: back-off from {0.5, 0.84375} s instead of uniform(0.5, 10)",
                 "times are catalogue values (dyadic, off the 0.1 s grid so that no two timers coincide), not symbolic reals: see module notes",
                 "engine events only after the first connection (the engine is started by first_steady_state_callback)",
                 "the harness runs with CrossHair tracing off (NoTracing): only the solver-chosen bits / selectors fork; the event loop itself holds no symbolic values"],
)]

MANIFEST = {
    "level": "exploration",
    "text": "The real EngineRunner coroutines (tick timer, connect/disconnect, _post_async, _set_state, buffer_messages, steady_state_send_messages, _send_buffered_batch, on_start/on_stop, shutdown) "
            "and the real assign_sequence_number run as asyncio tasks on a virtual-time event loop against a fake FIFO connection. The solver chooses at which send attempts the connection breaks, "
            "which connect attempts fail, acknowledgement latency, failure-detection delay and reconnect back-off (catalogue values around the runner's 0.1 s / 0.3 s periods) and when the run stops; "
            "every combination inside the bound is explored. At quiescence: every produced message delivered, buffer empty in Connected/Reconnected, second delivery only after a failed attempt, "
            "one unique sequence number per message, buffered run data before RunStopped.",
    "note": "Exhaustive over a finite decision space, decided by concrete execution: the event loop runs with CrossHair tracing off, no symbolic value enters the runner. Measured reason: with the loop "
            "under the tracer a path costs 2.9-4.8 s instead of 0.04 s, and ONE symbolic real time (run-stop offset in [0.05, 2.55] s, one break bit, nothing else symbolic) did not exhaust in 400 CPU s "
            "(83 paths, 360 solver checks per path: every timer comparison in the loop's heap asks the solver); asyncio itself was deterministic (no NotDeterministic / unknown paths). "
            "Connection model and fakes are listed in the assumptions; one run (start, stop), horizon 40 virtual seconds.",
    "technique": "CrossHair + z3 path exploration over solver-chosen fault bits and timing selectors, real coroutines on a virtual-time event loop, concrete decision per path, counterexample replay",
}
