"""C21  Unit-aware comparisons are exact, consistent and symmetric.

(i)   comparability_symmetry  (finite table, decides="table"): are_comparable / get_compatible_unit_names over
      ALL ordered pairs of the live module's supported units.
(ii)  control_flow  (CrossHair): the real `compare_values` with `as_decimal` / `ureg.Quantity` replaced by an
      exact rational quantity (symbolic integer numerators, exact unit factors taken from the registry): all
      seven operators on the same operands must be mutually consistent and equal to the rational comparison;
      string-vs-number inference for unit-less values.
(iii) decimal_arithmetic  (z3): the arithmetic pint REALLY performs.  The real `compare_values` is executed with
      an instrumented `Decimal` subclass as magnitude (concolic execution): every Decimal operation pint
      performs on the way (`to_root_units`, `.to(unit)`, offset converters) and every comparison it branches on
      is recorded with the Decimal constants the live registry holds.  The recorded programs are encoded in z3
      integer arithmetic with explicit round-half-even to the context precision (28 digits); z3 drives the
      path enumeration (ask for an input outside all known paths, run it for real, add the path) until the
      input domain is covered, then decides for ALL values of the domain:
          exactly one of <, =, > ;  '!=' == not '=' ;  '<=' == '<' or '=' ;  '>=' ; '==' == '=' ;
          each of <, =, > equals the comparison of the exact rational quantities (pint registry instantiated
          with Fraction arithmetic from the same definitions + the repo's own unit definitions).
      The encoder is validated on every run: every recorded operand value is recomputed through the z3 terms
      and compared with the real Decimal; predicted results are compared with the real, un-instrumented
      `compare_values` on the solver's witnesses, on the inputs of the repo's test_units.py and on boundary
      values.  Every witness is replayed on the real `compare_values`.
"""
from __future__ import annotations

from symx import Violation
from symx.obligation import Obligation

OPS = ["<", "<=", ">", ">=", "=", "==", "!="]
DOMAIN = {"quick": (9, 3), "thorough": tuple(int(x) for x in __import__("os").environ.get("C21_TD", "13,4").split(","))}          # values n * 10**-E with |n| < 10**DIGITS
Z3_TIMEOUT_MS = {"quick": 20000, "thorough": 60000}
MAX_PATHS = 16


# ---------------------------------------------------------------------------------------------------
# live tables
# ---------------------------------------------------------------------------------------------------
def _units_mod():
    import logging
    logging.disable(logging.CRITICAL)          # compare_values logs stack traces of conversion errors
    import openpectus.lang.exec.units as U
    return U


def _supported():
    return list(_units_mod().get_supported_units())


def _call(fn, *a):
    try:
        return ("ok", fn(*a))
    except Exception as e:  # noqa
        return ("exc", type(e).__name__)


def _comparable_pairs():
    """Ordered pairs (ua, ub), ua != ub, which the live are_comparable accepts."""
    U = _units_mod()
    us = [u for u in _supported() if u is not None]
    return [(a, b) for a in us for b in us if a != b and _call(U.are_comparable, a, b) == ("ok", True)]


def _pair_sig(a, b):
    return ",".join(sorted([str(a), str(b)]))


# ---------------------------------------------------------------------------------------------------
# (i) symmetry table
# ---------------------------------------------------------------------------------------------------
def run_symmetry(shard, tier):
    U = _units_mod()
    us = _supported()
    r = {"queries": 0, "unsat": 0, "sat": 0, "unknown": 0, "table_rows": 0, "violations": [], "samples": []}
    seen = set()
    compat = {u: _call(U.get_compatible_unit_names, u) for u in us}
    for a in us:
        for b in us:
            r["table_rows"] += 1
            ab, ba = _call(U.are_comparable, a, b), _call(U.are_comparable, b, a)
            if ab != ba:
                sig = f"asymmetric|are_comparable|pair={_pair_sig(a, b)}"
                if sig not in seen:
                    seen.add(sig)
                    r["violations"].append({"signature": sig, "detail": f"are_comparable({a!r}, {b!r}) -> {ab[1]} but are_comparable({b!r}, {a!r}) -> {ba[1]}",
                                            "witness": {"kind": "are_comparable", "a": a, "b": b}})
            if a is None or b is None or a == b:
                continue
            ca, cb = compat[a], compat[b]
            in_ab = ca[0] == "ok" and b in ca[1]
            in_ba = cb[0] == "ok" and a in cb[1]
            if in_ab != in_ba:
                sig = f"asymmetric|get_compatible_unit_names|pair={_pair_sig(a, b)}"
                if sig not in seen:
                    seen.add(sig)
                    r["violations"].append({"signature": sig,
                                            "detail": f"{b!r} in get_compatible_unit_names({a!r}) is {in_ab}, {a!r} in get_compatible_unit_names({b!r}) is {in_ba}",
                                            "witness": {"kind": "compatible_names", "a": a, "b": b}})
    r["samples"].append({"supported_units": len(us), "ordered_pairs": r["table_rows"]})
    return r


def replay_symmetry(w, shard):
    U = _units_mod()
    a, b = w["a"], w["b"]
    if w["kind"] == "are_comparable":
        ab, ba = _call(U.are_comparable, a, b), _call(U.are_comparable, b, a)
        if ab != ba:
            raise Violation(f"asymmetric|are_comparable|pair={_pair_sig(a, b)}", f"are_comparable({a!r},{b!r}) -> {ab[1]}, reversed -> {ba[1]}")
    else:
        ca, cb = _call(U.get_compatible_unit_names, a), _call(U.get_compatible_unit_names, b)
        in_ab = ca[0] == "ok" and b in ca[1]
        in_ba = cb[0] == "ok" and a in cb[1]
        if in_ab != in_ba:
            raise Violation(f"asymmetric|get_compatible_unit_names|pair={_pair_sig(a, b)}", f"{b!r} in names({a!r}): {in_ab}; {a!r} in names({b!r}): {in_ba}")


# ---------------------------------------------------------------------------------------------------
# exact rational ground truth: the registry's definitions evaluated with Fraction arithmetic
# ---------------------------------------------------------------------------------------------------
_FR = {}


def _fraction_registry():
    """A registry of the same class, same definition files, Fraction arithmetic, plus the units the repo added."""
    if "reg" in _FR:
        return _FR["reg"]
    from fractions import Fraction
    import dataclasses
    U = _units_mod()
    live = U.ureg
    fr = type(live)(non_int_type=Fraction)
    for name, d in list(live._units.items()):
        if name in fr._units or name != getattr(d, "name", name):
            continue
        conv = d.converter
        kw = {}
        for f in dataclasses.fields(conv):
            v = getattr(conv, f.name)
            kw[f.name] = Fraction(v) if not isinstance(v, (str, bool, type(None))) else v
        ref = d.reference
        if ref is not None and hasattr(ref, "items"):
            ref = type(ref)({k: Fraction(v) for k, v in ref.items()}, non_int_type=Fraction)
        fr.define(dataclasses.replace(d, converter=type(conv)(**kw), reference=ref))
    _FR["reg"] = fr
    return fr


def _affine(unit):
    """(F, O) Fractions with root_value(x unit) = F*x + O, or None when the Fraction registry cannot express it."""
    from fractions import Fraction
    key = ("aff", unit)
    if key not in _FR:
        try:
            fr = _fraction_registry()
            f = [fr.Quantity(Fraction(k), unit).to_root_units() for k in (0, 1, 2)]
            o, s = f[0].magnitude, f[1].magnitude - f[0].magnitude
            assert f[2].magnitude == 2 * s + o
            _FR[key] = (Fraction(s), Fraction(o), tuple(sorted((k, Fraction(v)) for k, v in f[0]._units.items())))
        except Exception:  # noqa
            _FR[key] = None
    return _FR[key]


def _exact_sides(ua, ub):
    """-> ((Fa, Oa), (Fb, Ob)) exact affine maps into a common unit, or None (pair has no exact model)."""
    from fractions import Fraction
    if ua == ub:
        return (Fraction(1), Fraction(0)), (Fraction(1), Fraction(0))
    if ua is None or ub is None:
        return None
    fa, fb = _affine(ua), _affine(ub)
    if fa is None or fb is None or fa[2] != fb[2]:
        return None
    return (fa[0], fa[1]), (fb[0], fb[1])


# ---------------------------------------------------------------------------------------------------
# (iii) concolic execution of the real compare_values with an instrumented Decimal
# ---------------------------------------------------------------------------------------------------
class _Unsupported(Exception):
    pass


_T = {"log": None}


def _td_class():
    if "TD" in _T:
        return _T["TD"]
    import decimal
    D = decimal.Decimal

    def lift(o):
        if isinstance(o, TD):
            return o.expr
        if isinstance(o, bool):
            return None
        if isinstance(o, (int, D)):
            return ("const", D(o))
        return None

    def binop(name, fn, swap=False):
        def f(self, other):
            e2 = lift(other)
            if e2 is None:
                return NotImplemented
            x, y = (D(other), D(self)) if swap else (D(self), D(other))
            e = (name, e2, self.expr) if swap else (name, self.expr, e2)
            return TD(fn(x, y), e)
        return f

    def cmpop(name, fn):
        def f(self, other):
            e2 = lift(other)
            if e2 is None:
                return fn(D(self), other)
            res = fn(D(self), D(other))
            if res is NotImplemented:
                return res
            if _T["log"] is not None:
                _T["log"].append((name, self.expr, e2, bool(res), D(self), D(other)))
            return res
        return f

    class TD(D):
        """Decimal that records what is computed from it (pint tests isinstance(value, Decimal))."""
        def __new__(cls, value, expr=None):
            o = D.__new__(cls, value)
            o.expr = expr if expr is not None else ("const", D(value))
            return o

        def __copy__(self):
            return self

        def __deepcopy__(self, memo):
            return self

        def __reduce__(self):
            raise _Unsupported("pickling an instrumented Decimal")

        __mul__ = binop("mul", D.__mul__)
        __rmul__ = binop("mul", D.__mul__, swap=True)
        __add__ = binop("add", D.__add__)
        __radd__ = binop("add", D.__add__, swap=True)
        __sub__ = binop("sub", D.__sub__)
        __rsub__ = binop("sub", D.__sub__, swap=True)
        __truediv__ = binop("div", D.__truediv__)
        __rtruediv__ = binop("div", D.__truediv__, swap=True)
        __lt__ = cmpop("lt", D.__lt__)
        __le__ = cmpop("le", D.__le__)
        __gt__ = cmpop("gt", D.__gt__)
        __ge__ = cmpop("ge", D.__ge__)
        __eq__ = cmpop("eq", D.__eq__)
        __ne__ = cmpop("ne", D.__ne__)
        __hash__ = D.__hash__

        def __neg__(self):
            return TD(D.__neg__(D(self)), ("neg", self.expr))

        def __pos__(self):
            return self

        def _unsupported(self, *a, **k):
            raise _Unsupported("Decimal operation outside the encoder (pow / floordiv / mod / quantize ...)")

        __pow__ = __rpow__ = __floordiv__ = __rfloordiv__ = __mod__ = __rmod__ = __divmod__ = _unsupported
        quantize = sqrt = ln = log10 = exp = fma = _unsupported

    _T["TD"] = TD
    return TD


def _trace(op, ua, ub, va, vb):
    """Run the REAL compare_values on Decimal values va, vb carried by instrumented Decimals.
    -> (log, outcome) with outcome = True / False / "exc:<Type>"."""
    import decimal
    U = _units_mod()
    TD = _td_class()
    tok = {"<A>": TD(decimal.Decimal(va), ("in", "a")), "<B>": TD(decimal.Decimal(vb), ("in", "b"))}
    orig = U.as_decimal
    U.as_decimal = lambda value: tok[value] if value in tok else orig(value)
    _T["log"] = []
    try:
        try:
            out = U.compare_values(op, "<A>", ua, "<B>", ub)
            assert isinstance(out, bool)
        except _Unsupported:
            raise
        except Exception as e:  # noqa
            out = "exc:" + type(e).__name__
        return _T["log"], out
    finally:
        _T["log"] = None
        U.as_decimal = orig


def _real(op, ua, ub, sa, sb):
    """The un-instrumented real function on value strings."""
    U = _units_mod()
    try:
        return U.compare_values(op, sa, ua, sb, ub)
    except Exception as e:  # noqa
        return "exc:" + type(e).__name__


def _fmt(n, E):
    """Value string of n * 10**-E in plain positional notation."""
    import decimal
    with decimal.localcontext() as c:
        c.prec = 200
        return format(decimal.Decimal(n).scaleb(-E), "f")


class Enc:
    """z3 integer encoding of recorded Decimal programs: value = N * 10**x, N a z3 Int term, x a Python int.

    Rounding and division are introduced as *definitional extensions*: fresh integer variables (quotient,
    remainder, rounded result) tied to their argument by linear constraints under the (mutually exclusive,
    exhaustive) digit-count cases.  For every argument value exactly one assignment of the fresh variables
    satisfies the constraints, so they can be asserted as side conditions of every query (`defs`)."""

    def __init__(self, digits, E, prec):
        import z3
        self.z3 = z3
        self.digits, self.E, self.prec = digits, E, prec
        self.a, self.b = z3.Int("a"), z3.Int("b")
        self.lim = 10 ** digits
        self.defs = []
        self.memo = {}
        self.cmps = {}
        self.n = 0

    def fresh(self, kind="i"):
        self.n += 1
        return self.z3.Int(f"k{self.n}") if kind == "i" else self.z3.Bool(f"p{self.n}")

    def domain(self):
        return [self.a > -self.lim, self.a < self.lim, self.b > -self.lim, self.b < self.lim]

    def _abs(self, N):
        z3 = self.z3
        M, neg = self.fresh(), self.fresh("b")
        self.defs += [neg == (N < 0), M == z3.If(neg, -N, N)]
        return M, neg

    def _parts(self):
        """fresh (q, r, up, odd, res) with q = 2h + odd"""
        z3 = self.z3
        q, r, res, h = self.fresh(), self.fresh(), self.fresh(), self.fresh()
        up, odd = self.fresh("b"), self.fresh("b")
        self.defs.append(q == 2 * h + z3.If(odd, 1, 0))
        return q, r, up, odd, res

    # -- rounding -------------------------------------------------------------------------------------
    def _round(self, N, x, maxabs):
        z3 = self.z3
        P = 10 ** self.prec
        if maxabs < P:
            return N, x, maxabs
        M, neg = self._abs(N)
        smax = len(str(maxabs)) - self.prec
        q, r, up, odd, res = self._parts()
        self.defs.append(z3.Implies(M < P, z3.And(q == M, r == 0, z3.Not(up), res == M)))
        for s in range(1, smax + 1):
            p = 10 ** s
            rng = z3.And(M >= (P // 10) * p, M < P * p)
            self.defs.append(z3.Implies(rng, z3.And(M == q * p + r, r >= 0, r < p,
                                                    up == z3.Or(2 * r > p, z3.And(2 * r == p, odd)),
                                                    res == (q + z3.If(up, 1, 0)) * p)))
        out = self.fresh()
        self.defs.append(out == z3.If(neg, -res, res))
        return out, x, P * 10 ** smax

    def _div(self, v1, v2):
        """v1 / v2 with v2 a constant: exact quotient rounded to prec digits (half even)."""
        z3 = self.z3
        N1, x1, m1, c1 = v1
        N2, x2, m2, c2 = v2
        if c2 is None or c2 == 0:
            raise _Unsupported("division by a non-constant")
        K = abs(c2)
        if str(K).strip("0") == "1":                       # divisor is +-10**j: exact shift, then ordinary rounding
            j = len(str(K)) - 1
            N, x, m = self._round(N1 if c2 > 0 else -N1, x1 - x2 - j, m1)
            return N, x, m, None
        M, neg = self._abs(N1)
        P = 10 ** self.prec
        t_max = self.prec + len(str(K))                                       # enough for M = 1
        t_min = self.prec - 2 + len(str(K)) - len(str(max(m1, 1))) - 1        # enough for M = maxabs
        q, r, up, odd, res = self._parts()
        self.defs.append(z3.Implies(M == 0, z3.And(q == 0, r == 0, z3.Not(up), res == 0)))
        for t in range(t_min, t_max + 1):
            num, den = (M * 10 ** t, K) if t >= 0 else (M, K * 10 ** (-t))
            rng = z3.And(M > 0, num >= (P // 10) * den, num < P * den)        # integer quotient has exactly prec digits
            self.defs.append(z3.Implies(rng, z3.And(num == q * den + r, r >= 0, r < den,
                                                    up == z3.Or(2 * r > den, z3.And(2 * r == den, odd)),
                                                    res == (q + z3.If(up, 1, 0)) * 10 ** (t_max - t))))
        # totality of the case split (M > 0): 10**t_min * M < P*den ... and 10**t_max * M >= P/10 * K by construction
        out = self.fresh()
        neg_out = neg if c2 > 0 else z3.Not(neg)
        self.defs.append(out == z3.If(neg_out, -res, res))
        return out, x1 - x2 - t_max, P * 10 ** (t_max - t_min + 1), None

    # -- expression trees ------------------------------------------------------------------------------
    def val(self, e):
        """-> (N, x, maxabs, const_int_or_None)"""
        z3 = self.z3
        k = e[0]
        if k == "in":
            return (self.a if e[1] == "a" else self.b), -self.E, self.lim - 1, None
        if k == "const":
            sign, digs, exp = e[1].as_tuple()
            if not isinstance(exp, int):
                raise _Unsupported("non-finite constant")
            c = int("".join(map(str, digs)) or "0") * (-1 if sign else 1)
            return z3.IntVal(c), exp, abs(c), c
        key = _key(e)
        if key in self.memo:
            return self.memo[key]
        if k == "neg":
            N, x, m, c = self.val(e[1])
            out = (-N, x, m, None if c is None else -c)
        elif k == "mul":
            v1, v2 = self.val(e[1]), self.val(e[2])
            if v1[3] is None and v2[3] is None:
                raise _Unsupported("product of two non-constants")
            if v1[3] is None:
                v1, v2 = v2, v1
            c = v1[3]
            N, x, m = self._round(v2[0] * c, v1[1] + v2[1], v2[2] * abs(c))
            out = (N, x, m, (c * v2[3]) if (v2[3] is not None and v2[2] * abs(c) < 10 ** self.prec) else None)
        elif k in ("add", "sub"):
            v1, v2 = self.val(e[1]), self.val(e[2])
            x = min(v1[1], v2[1])
            n1, n2 = v1[0] * 10 ** (v1[1] - x), v2[0] * 10 ** (v2[1] - x)
            m = v1[2] * 10 ** (v1[1] - x) + v2[2] * 10 ** (v2[1] - x)
            N, x, m = self._round(n1 + n2 if k == "add" else n1 - n2, x, m)
            out = (N, x, m, None)
        elif k == "div":
            out = self._div(self.val(e[1]), self.val(e[2]))
        else:
            raise _Unsupported(k)
        self.memo[key] = out
        return out

    def cmp(self, name, e1, e2):
        key = (name, _key(e1), _key(e2))
        if key not in self.cmps:
            v1, v2 = self.val(e1), self.val(e2)
            x = min(v1[1], v2[1])
            l, r = v1[0] * 10 ** (v1[1] - x), v2[0] * 10 ** (v2[1] - x)
            p = self.fresh("b")
            self.defs.append(p == {"lt": l < r, "le": l <= r, "gt": l > r, "ge": l >= r, "eq": l == r, "ne": l != r}[name])
            self.cmps[key] = p
        return self.cmps[key]

    def model(self, na, nb, timeout_ms=20000):
        """The unique model of the definitions for concrete inputs."""
        z3 = self.z3
        s = z3.Solver()
        s.set("timeout", timeout_ms)
        s.add(self.a == na, self.b == nb)
        for d in self.defs:
            s.add(d)
        if s.check() != z3.sat:
            raise RuntimeError(f"Decimal encoder: definitions not satisfiable for a={na}, b={nb} (case split not total)")
        return s.model()

    def concrete(self, e, model):
        """Value of expression e in `model`: Fraction."""
        from fractions import Fraction
        N, x, _m, _c = self.val(e)
        t = model.eval(N, model_completion=True)
        return Fraction(t.as_long()) * Fraction(10) ** x


def _key(e):
    """Structural, hashable key of a recorded expression (constants by exact digits)."""
    if e[0] == "const":
        return ("const", str(e[1].as_tuple()))
    if e[0] == "in":
        return e
    return (e[0],) + tuple(_key(x) for x in e[1:])


class PairModel:
    """All execution paths of compare_values(op, a, ua, b, ub) for the seven operators over the value domain."""

    def __init__(self, ua, ub, tier, tally):
        import decimal
        import z3
        self.z3 = z3
        self.ua, self.ub, self.tier, self.t = ua, ub, tier, tally
        ctx = decimal.getcontext()
        if ctx.rounding != decimal.ROUND_HALF_EVEN:
            raise RuntimeError(f"decimal context rounding is {ctx.rounding}: encoder models ROUND_HALF_EVEN only")
        digits, E = DOMAIN[tier]
        self.E = E
        self.enc = Enc(digits, E, ctx.prec)
        self.paths = {}        # op -> list of (cond z3 Bool, outcome)
        self._model = (None, None)

    def solver(self):
        s = self.z3.Solver()
        s.set("timeout", Z3_TIMEOUT_MS[self.tier])
        for c in self.enc.domain():
            s.add(c)
        for d in self.enc.defs:
            s.add(d)
        return s

    def check(self, s):
        import time
        z3 = self.z3
        t0 = time.monotonic()
        r = s.check()
        self.t["solver_s"] += time.monotonic() - t0
        self.t["queries"] += 1
        v = "sat" if r == z3.sat else ("unsat" if r == z3.unsat else "unknown")
        self.t[v] += 1
        return v

    def run_path(self, op, na, nb):
        """Concrete instrumented run -> (cond, outcome); validates the encoder on every recorded operand."""
        import decimal
        from fractions import Fraction
        z3 = self.z3
        D = decimal.Decimal
        va, vb = D(na).scaleb(-self.E), D(nb).scaleb(-self.E)
        log, out = _trace(op, self.ua, self.ub, va, vb)
        conds = []
        for name, e1, e2, res, d1, d2 in log:
            c = self.enc.cmp(name, e1, e2)
            conds.append(c if res else z3.Not(c))
        model = self.model(na, nb)
        for name, e1, e2, res, d1, d2 in log:
            for e, d in ((e1, d1), (e2, d2)):
                got = self.enc.concrete(e, model)
                if got != Fraction(d):
                    raise RuntimeError(f"Decimal encoder mismatch for {self.ua}/{self.ub} op {op} a={va} b={vb}: real {d}, encoded {got}")
                self.t["decisions"] += 1
        # cross-check with the un-instrumented function on the value strings
        real = _real(op, self.ua, self.ub, _fmt(na, self.E), _fmt(nb, self.E))
        if real != out:
            raise RuntimeError(f"instrumented run disagrees with the real compare_values({op!r}, {va}, {self.ua!r}, {vb}, {self.ub!r}): {out} vs {real}")
        return (z3.And(*conds) if conds else z3.BoolVal(True)), out

    def explore(self, op, seeds):
        z3 = self.z3
        paths = []
        pending = list(seeds)
        while len(paths) < MAX_PATHS:
            if pending:
                na, nb = pending.pop()
                if any(self._holds(c, na, nb) for c, _o in paths):
                    continue
            else:
                s = self.solver()
                for c, _o in paths:
                    s.add(z3.Not(c))
                v = self.check(s)
                if v == "unsat":
                    break
                if v == "unknown":
                    self.t["incomplete"].append(f"{op}: path enumeration unknown")
                    break
                m = s.model()
                na = m.eval(self.enc.a, model_completion=True).as_long()
                nb = m.eval(self.enc.b, model_completion=True).as_long()
            cond, out = self.run_path(op, na, nb)
            if not self._holds(cond, na, nb):
                raise RuntimeError(f"path condition does not hold on its own input (encoder bug) {self.ua}/{self.ub} {op} {na} {nb}")
            paths.append((cond, out))
        else:
            self.t["incomplete"].append(f"{op}: more than {MAX_PATHS} paths")
        self.paths[op] = paths
        return paths

    def model(self, na, nb):
        key = (na, nb, len(self.enc.defs))
        if self._model[0] != key:
            self._model = (key, self.enc.model(na, nb, Z3_TIMEOUT_MS[self.tier]))
        return self._model[1]

    def _holds(self, cond, na, nb):
        z3 = self.z3
        return z3.is_true(self.model(na, nb).eval(cond, model_completion=True))

    def result(self, op):
        """z3 Bool: compare_values(op, ...) returns True."""
        z3 = self.z3
        ts = [c for c, o in self.paths[op] if o is True]
        return z3.Or(*ts) if ts else z3.BoolVal(False)

    def raising(self, op):
        return [(c, o) for c, o in self.paths[op] if isinstance(o, str)]


def _seeds(E):
    one = 10 ** E
    vals = [0, one, -one, 5 * one, 7200 * one, 1440 * one, 32 * one, 3 * one + 1, 10 ** (E + 6) + 7]
    return [(x, y) for x in (0, one, 7200 * one) for y in vals][:12] + [(0, 0)]


def _equal_seeds(ex, E, lim):
    """Concrete operand pairs that denote the same (or nearly the same) physical quantity, from the exact model."""
    from fractions import Fraction
    if ex is None:
        return []
    (fa, oa), (fb, ob) = ex
    out = []
    sc = 10 ** E
    for k in (1, 5, 32, 60, 100, 273, 1440, 3600, 86400, 7200, 123456, -60, -1440):
        for bnum in (k * sc, k * sc + 1, k):
            b = Fraction(bnum, sc)
            a = (fb * b + ob - oa) / fa
            an = a * sc
            if an.denominator == 1 and abs(an) < lim and abs(bnum) < lim:
                out += [(int(an), bnum), (int(an) + 1, bnum), (int(an) - 1, bnum)]
            else:
                an = int(an)
                if abs(an) < lim - 1 and abs(bnum) < lim:
                    out += [(an, bnum), (an + 1, bnum)]
    return out[:60]


def _test_unit_inputs():
    """(op, va, ua, vb, ub) tuples of the repo's own test_units.py (self.comp(...) calls), read from the file."""
    import ast
    import os
    import openpectus
    path = os.path.join(os.path.dirname(openpectus.__file__), "test", "lang", "test_units.py")
    out = []
    try:
        tree = ast.parse(open(path, encoding="utf-8").read())
    except OSError:
        return out
    for node in ast.walk(tree):
        if isinstance(node, ast.Call) and isinstance(node.func, ast.Attribute) and node.func.attr in ("comp", "compare_values") \
                and len(node.args) >= 5 and all(isinstance(x, ast.Constant) for x in node.args[:5]):
            out.append(tuple(x.value for x in node.args[:5]))
    return out


def run_decimal(shard, tier):
    import z3
    from fractions import Fraction
    ua, ub = shard["ua"], shard["ub"]
    t = {"queries": 0, "unsat": 0, "sat": 0, "unknown": 0, "table_rows": 0, "decisions": 0, "violations": [], "samples": [],
         "solver_s": 0.0, "incomplete": []}
    pm = PairModel(ua, ub, tier, t)
    E = pm.E
    a, b = pm.enc.a, pm.enc.b
    psig = _pair_sig(ua, ub)
    seen = set()

    U = _units_mod()
    quantity = "none" if ua is None else _call(U.get_unit_quantity_name, ua)[1]
    ex = _exact_sides(ua, ub)

    def emit(cls, kind, na, nb, detail):
        sig = _signature(cls, kind, quantity, ua, ub)
        if sig in seen:
            return
        seen.add(sig)
        t["violations"].append({"signature": sig, "detail": detail,
                                "witness": {"cls": cls, "kind": kind, "ua": ua, "ub": ub, "a": _fmt(na, E), "b": _fmt(nb, E)}})

    try:
        seeds = _seeds(E) + _equal_seeds(ex, E, pm.enc.lim)
        for op in OPS:
            pm.explore(op, seeds)
    except _Unsupported as e:
        raise RuntimeError(f"pair {ua}/{ub}: {e}")
    incomplete_ops = {x.split(":")[0] for x in t["incomplete"]}

    def describe(na, nb):
        return ", ".join(f"{op}:{_real(op, ua, ub, _fmt(na, E), _fmt(nb, E))}" for op in OPS)

    # exact rational quantities (integers after scaling) and "the two quantities differ at most at rounding level"
    if ex is not None:
        import math
        (fa, oa), (fb, ob) = ex
        den = 1
        for f in (fa, oa, fb, ob):
            den = den * f.denominator // math.gcd(den, f.denominator)
        sc = 10 ** E
        L = int(fa * den) * a + int(oa * den) * sc          # exact value of operand a in the common unit, times den*10^E
        Rr = int(fb * den) * b + int(ob * den) * sc
        ab = lambda v: z3.If(v >= 0, v, -v)                 # noqa
        close = ab(L - Rr) * CLOSE <= ab(L) + ab(Rr)
        classes = [("rounding", close), ("gross", z3.Not(close))]
    else:
        L = Rr = None
        classes = [("nomodel", z3.BoolVal(True))]

    def ask(label, formula, kind, ops=OPS):
        out = []
        if incomplete_ops & set(ops):
            t["unknown"] += 1            # result formulas of these operators are only partial: no verdict
            t["queries"] += 1
            return ["unknown"]
        for cls, cond in classes:
            s = pm.solver()
            s.add(formula, cond)
            v = pm.check(s)
            out.append(v)
            if len(t["samples"]) < 2:
                t["samples"].append({"pair": [ua, ub], "query": f"{label} [{cls}]", "verdict": v})
            if v == "sat":
                m = s.model()
                na, nb = m.eval(a, model_completion=True).as_long(), m.eval(b, model_completion=True).as_long()
                emit(cls, kind, na, nb, f"compare_values(op, {_fmt(na, E)!r}, {ua!r}, {_fmt(nb, E)!r}, {ub!r}): {describe(na, nb)}  [{label}; {cls}]")
        return out

    # concrete pre-screen on the boundary seeds (0/0, equal quantities, neighbours): the real function decides; keeps the
    # set of reported signatures independent of solver time-outs on the expensive (Fahrenheit) pairs
    from fractions import Fraction as _F
    for na, nb in dict.fromkeys(seeds):
        res = {op: _real(op, ua, ub, _fmt(na, E), _fmt(nb, E)) for op in OPS}
        t["decisions"] += 1
        truth, cls = None, "nomodel"
        if ex is not None:
            (fa_, oa_), (fb_, ob_) = ex
            Lc, Rc = fa_ * _F(na, 10 ** E) + oa_, fb_ * _F(nb, 10 ** E) + ob_
            truth = {"<": Lc < Rc, "=": Lc == Rc, ">": Lc > Rc}
            cls = "rounding" if abs(Lc - Rc) * CLOSE <= abs(Lc) + abs(Rc) else "gross"
        for kind in ("raises", "trichotomy", "ne-vs-eq", "eqeq-vs-eq", "le-vs-lt-or-eq", "ge-vs-gt-or-eq", "inexact"):
            if _kind_holds(kind, res, truth):
                emit("any" if kind == "raises" else cls, kind, na, nb,
                     f"compare_values(op, {_fmt(na, E)!r}, {ua!r}, {_fmt(nb, E)!r}, {ub!r}): " + ", ".join(f"{k}:{v}" for k, v in res.items()) + "  [seed screen]")

    # a comparison the module declares possible must not raise
    raising = [(op, c, o) for op in OPS for c, o in pm.raising(op)]
    for op, c, o in raising:
        s = pm.solver()
        s.add(c)
        if pm.check(s) == "sat":
            m = s.model()
            na, nb = m.eval(a, model_completion=True).as_long(), m.eval(b, model_completion=True).as_long()
            emit("any", "raises", na, nb, f"are_comparable({ua!r}, {ub!r}) is True but compare_values({op!r}, {_fmt(na, E)!r}, {ua!r}, {_fmt(nb, E)!r}, {ub!r}) raises {o[4:]}")
    R = {op: pm.result(op) for op in OPS}
    lt, eq, gt = R["<"], R["="], R[">"]
    one = z3.Or(z3.And(lt, z3.Not(eq), z3.Not(gt)), z3.And(z3.Not(lt), eq, z3.Not(gt)), z3.And(z3.Not(lt), z3.Not(eq), gt))
    no_raise = z3.And(*[z3.Not(c) for _op, c, _o in raising]) if raising else z3.BoolVal(True)
    ask("not exactly one of <, =, >", z3.And(no_raise, z3.Not(one)), "trichotomy", ["<", "=", ">"])
    ask("'!=' is not the negation of '='", z3.And(no_raise, R["!="] == eq), "ne-vs-eq", ["!=", "="])
    ask("'==' differs from '='", z3.And(no_raise, R["=="] != eq), "eqeq-vs-eq", ["==", "="])
    ask("'<=' differs from '<' or '='", z3.And(no_raise, R["<="] != z3.Or(lt, eq)), "le-vs-lt-or-eq", ["<=", "<", "="])
    ask("'>=' differs from '>' or '='", z3.And(no_raise, R[">="] != z3.Or(gt, eq)), "ge-vs-gt-or-eq", [">=", ">", "="])
    if ex is not None:
        ask("'<', '=' or '>' differs from the comparison of the exact rational quantities",
            z3.And(no_raise, z3.Or(lt != (L < Rr), eq != (L == Rr), gt != (L > Rr))), "inexact", ["<", "=", ">"])
    else:
        t["samples"].append({"pair": [ua, ub], "note": "no exact rational model for this pair (not expressible in the Fraction registry)"})
    # encoder validation on the repo's own test inputs for this pair and on boundary values
    import decimal
    checks = []
    for (op, va, xa, vb, xb) in _test_unit_inputs():
        if (xa, xb) == (ua, ub) and op in OPS:
            try:
                da, db = decimal.Decimal(va), decimal.Decimal(vb)
            except Exception:  # noqa
                continue
            na, nb = da.scaleb(E), db.scaleb(E)
            if na == na.to_integral_value() and nb == nb.to_integral_value() and abs(na) < pm.enc.lim and abs(nb) < pm.enc.lim:
                checks.append((op, int(na), int(nb)))
    lim = pm.enc.lim - 1
    for op in OPS:
        for na, nb in ((lim, lim), (-lim, lim), (1, -1), (lim, 1), (123456789, 987654321)):
            checks.append((op, na, nb))
    for op, na, nb in checks:
        if op in incomplete_ops:
            continue
        want = _real(op, ua, ub, _fmt(na, E), _fmt(nb, E))
        hits = [o for c, o in pm.paths[op] if pm._holds(c, na, nb)]
        t["decisions"] += 1
        if len(hits) != 1 or hits[0] != want:
            raise RuntimeError(f"encoder validation failed for {ua}/{ub} {op} a={_fmt(na, E)} b={_fmt(nb, E)}: real {want}, paths {hits}")
    t["samples"].append({"pair": [ua, ub], "paths": {op: len(pm.paths[op]) for op in OPS}, "validated_inputs": len(checks)})
    del t["incomplete"]
    return t


CLOSE = 10 ** 20      # two exact quantities are "equal up to rounding" when |L-R| * CLOSE <= |L| + |R|


def _signature(cls, kind, quantity, ua, ub):
    """rounding-level findings are keyed per quantity, everything else per unit pair."""
    if cls == "rounding":
        return f"decimal-rounding|{kind}|quantity={quantity}"
    if kind == "raises":
        return f"raises|pair={_pair_sig(ua, ub)}"
    return f"{cls}|{kind}|pair={_pair_sig(ua, ub)}"


def _kind_holds(kind, res, truth):
    """Does the violation kind hold for the real results {op: True/False/'exc:..'}?"""
    if kind == "raises":
        return any(isinstance(v, str) for v in res.values())
    if any(isinstance(v, str) for v in res.values()):
        return False
    if kind == "trichotomy":
        return [res["<"], res["="], res[">"]].count(True) != 1
    if kind == "ne-vs-eq":
        return res["!="] == res["="]
    if kind == "eqeq-vs-eq":
        return res["=="] != res["="]
    if kind == "le-vs-lt-or-eq":
        return res["<="] != (res["<"] or res["="])
    if kind == "ge-vs-gt-or-eq":
        return res[">="] != (res[">"] or res["="])
    if kind == "inexact":
        return truth is not None and any(res[op] != truth[op] for op in ("<", "=", ">"))
    return False


def replay_decimal(w, shard):
    from fractions import Fraction
    U = _units_mod()
    ua, ub, kind = w["ua"], w["ub"], w["kind"]
    res = {op: _real(op, ua, ub, w["a"], w["b"]) for op in OPS}
    txt = f"compare_values(op, {w['a']!r}, {ua!r}, {w['b']!r}, {ub!r}) -> " + ", ".join(f"{k}:{v}" for k, v in res.items())
    ex = _exact_sides(ua, ub)
    truth, cls = None, "nomodel"
    if ex is not None:
        (fa, oa), (fb, ob) = ex
        L, R = fa * Fraction(w["a"]) + oa, fb * Fraction(w["b"]) + ob
        truth = {"<": L < R, "=": L == R, ">": L > R}
        cls = "rounding" if abs(L - R) * CLOSE <= abs(L) + abs(R) else "gross"
        txt += f"; exact quantities {L} vs {R}"
    if kind == "raises":
        cls = "any"
    if _kind_holds(kind, res, truth):
        quantity = "none" if ua is None else _call(U.get_unit_quantity_name, ua)[1]
        raise Violation(_signature(cls, kind, quantity, ua, ub), txt)


def _is_costly(a, b):
    """Pairs whose conversion divides by a 28-digit constant (anything to Fahrenheit): ~40 digit-count cases per division."""
    return any(u in ("degF", "°F") for u in (a, b)) and not all(u in ("degF", "°F") for u in (a, b))


def _decimal_shards(tier):
    pairs = _comparable_pairs()
    us = [u for u in _supported() if u is not None]
    if tier == "quick":
        # per quantity the pairs (first unit, other unit), a few reversed / notorious pairs, same-unit and unit-less operands;
        # Fahrenheit conversions are left to the thorough tier (division by a 28-digit constant: minutes per query)
        U = _units_mod()
        keep = []
        for q, lst in U.QUANTITY_UNIT_MAP.items():
            for u in lst[1:]:
                if (lst[0], u) in pairs:
                    keep.append((lst[0], u))
                elif (u, lst[0]) in pairs:
                    keep.append((u, lst[0]))
        keep += [("L/d", "L/min"), ("L/min", "L/d"), ("min", "s"), ("g/min", "kg/h"), ("K", "degC")]
        keep = [p for p in dict.fromkeys(keep) if p in pairs and not _is_costly(*p)]
        same = [("s", "s"), ("degC", "degC"), ("CV", "CV"), ("%", "%")]
        return [{"ua": a, "ub": b} for a, b in keep + same] + [{"ua": None, "ub": None}]
    return [{"ua": a, "ub": b} for a, b in pairs] + [{"ua": u, "ub": u} for u in us] + [{"ua": None, "ub": None}]


# ---------------------------------------------------------------------------------------------------
# (ii) compare_values control flow under CrossHair, exact rational quantities
# ---------------------------------------------------------------------------------------------------
CF_PAIRS = [(None, None), ("s", "s"), ("CV", "CV"), ("s", "min"), ("L/h", "L/min"), ("degC", "degF"), ("kg/h", "g/s"), ("%", "vol%")]
TEXTS = ["foo", "bar", ""]


def control_flow_harness(sym):
    from fractions import Fraction
    U = _units_mod()
    ua, ub = sym.shard["pair"]
    with sym.concrete():
        ex = _exact_sides(ua, ub) if ua != ub else ((Fraction(1), Fraction(0)), (Fraction(1), Fraction(0)))
        if ex is None:
            raise RuntimeError(f"no exact model for {ua}/{ub}")
        (fa, oa), (fb, ob) = ex
        den = 1
        import math
        for f in (fa, oa, fb, ob):
            den = den * f.denominator // math.gcd(den, f.denominator)
        KA, CA, KB, CB = int(fa * den), int(oa * den), int(fb * den), int(ob * den)

        class XQ:
            """Exact stand-in for Decimal values and pint quantities: an integer numerator over a fixed denominator."""
            def __init__(self, n, units=None):
                self.n, self.units = n, units

            def to(self, units):
                return XQ(self.n, units)

            def __lt__(self, o): return self.n < o.n
            def __le__(self, o): return self.n <= o.n
            def __gt__(self, o): return self.n > o.n
            def __ge__(self, o): return self.n >= o.n
            def __eq__(self, o): return isinstance(o, XQ) and self.n == o.n
            def __ne__(self, o): return not (isinstance(o, XQ) and self.n == o.n)
            __hash__ = None

            def __bool__(self):            # as Decimal: zero is falsy (the two operands are spelled differently: "<A>" / "<B>")
                return bool(self.n != 0)

        class FakeReg:
            @staticmethod
            def Quantity(v, unit):
                # root value * den * 1000: (K*x/1000 + C)*... numerators are in 1/1000
                if unit == ua and v.side == "a":
                    return XQ(KA * v.n + CA * 1000, unit)
                return XQ(KB * v.n + CB * 1000, unit)

    numeric_a, numeric_b = sym.bool("numeric_a"), sym.bool("numeric_b")
    na = sym.int("a_thousandths", -10 ** 9, 10 ** 9)
    nb = sym.int("b_thousandths", -10 ** 9, 10 ** 9)
    ta = TEXTS[sym.shard.get("ta", 0)]
    tb = TEXTS[sym.shard.get("tb", 0)]
    tokens = {}
    if numeric_a:
        va = "<A>"
        qa = XQ(na)
        qa.side = "a"
        tokens[va] = qa
    else:
        va = ta
    if numeric_b:
        vb = "<B>"
        qb = XQ(nb)
        qb.side = "b"
        tokens[vb] = qb
    else:
        vb = tb
    orig = (U.as_decimal, U.ureg, U.Q_)
    U.as_decimal = lambda value: tokens.get(value) if isinstance(value, str) else None
    U.ureg, U.Q_ = FakeReg, XQ
    try:
        res = {}
        for op in OPS:
            try:
                res[op] = U.compare_values(op, va, ua, vb, ub)
            except ValueError:
                res[op] = "ValueError"
            except Exception as e:  # noqa
                res[op] = "exc:" + type(e).__name__
    finally:
        U.as_decimal, U.ureg, U.Q_ = orig
    pair = _pair_sig(ua, ub)
    if numeric_a and numeric_b:
        L, R = KA * na + CA * 1000, KB * nb + CB * 1000
        truth = {"<": L < R, "<=": L <= R, ">": L > R, ">=": L >= R, "=": L == R, "==": L == R, "!=": L != R}
        for op in OPS:
            sym.check(not isinstance(res[op], str), f"control-flow|raises|op={op}|pair={pair}",
                      f"numeric operands, op {op}: {res[op]}")
            sym.check(res[op] == truth[op], f"control-flow|wrong-result|op={op}|pair={pair}", f"op {op} returned {res[op]}, exact comparison differs")
    elif ua is None or ua == ub:
        # at least one operand is text: ordering operators must refuse, (in)equality compares the texts
        for op in ("<", "<=", ">", ">="):
            sym.check(res[op] == "ValueError", f"control-flow|text-ordering|op={op}|pair={pair}", f"text operand, op {op} gave {res[op]}")
        if not numeric_a and not numeric_b:
            sym.check(res["="] == (va == vb) and res["=="] == (va == vb) and res["!="] == (va != vb),
                      f"control-flow|text-equality|pair={pair}", f"{va!r} vs {vb!r}: {res}")
        else:
            sym.check(res["="] is False and res["=="] is False and res["!="] is True, f"control-flow|text-vs-number|pair={pair}", f"{res}")
    else:
        # different (pint) units need numbers
        for op in OPS:
            sym.check(res[op] == "ValueError", f"control-flow|text-with-units|op={op}|pair={pair}", f"text operand with units, op {op} gave {res[op]}")


def _cf_shards(tier):
    out = []
    for p in CF_PAIRS:
        out.append({"pair": list(p), "ta": 0, "tb": 0})
        if p[0] is None or p[0] == p[1]:
            out.append({"pair": list(p), "ta": 0, "tb": 1})
            out.append({"pair": list(p), "ta": 2, "tb": 0})
    return out


OBLIGATIONS = [
    Obligation(
        name="comparability_symmetry", kind="finite", run=run_symmetry, replay=replay_symmetry, decides="table",
        encoded=["openpectus.lang.exec.units:are_comparable", "openpectus.lang.exec.units:get_compatible_unit_names"],
        symbolic="none: every ordered pair of the live get_supported_units() (None included)",
        bounds={"quick": "all ordered pairs", "thorough": "all ordered pairs"}, assumptions=[]),
    Obligation(
        name="control_flow", kind="crosshair", harness=control_flow_harness, shards=_cf_shards,
        cpu_budget={"quick": 60.0, "thorough": 300.0},
        encoded=["openpectus.lang.exec.units:compare_values", "openpectus.lang.exec.units:are_comparable"],
        symbolic="two operand values in thousandths (ints, |n| <= 10^9), numeric-or-text bit per operand; all seven operators evaluated on the same operands",
        bounds={"quick": "8 unit pairs (none, same unit, non-pint unit, time, flow, offset temperature, mass flow, percentage), text operands from a catalogue of 3",
                "thorough": "same"},
        assumptions=["as_decimal and ureg.Quantity replaced by an exact rational quantity (integer numerator; unit factors and offsets taken from the registry's definitions evaluated in Fraction arithmetic)",
                     "the arithmetic pint really performs is the subject of obligation decimal_arithmetic", "log statements removed at import"]),
    Obligation(
        name="decimal_arithmetic", kind="z3", run=run_decimal, replay=replay_decimal, shards=_decimal_shards,
        encoded=["openpectus.lang.exec.units:compare_values", "openpectus.lang.exec.units:as_decimal"],
        symbolic="the two operand values: integers a, b with value = n * 10^-E (z3 Int), all seven operators",
        bounds={"quick": "values with up to 6 integer and 3 fractional digits (|n| < 10^9, E = 3); per quantity the pairs (first unit, other unit) + 5 extra pairs + 4 same-unit pairs + unit-less; pairs converting to/from Fahrenheit only in the thorough tier",
                "thorough": "values with up to 9 integer and 4 fractional digits (|n| < 10^13, E = 4); every ordered comparable pair, every same-unit pair, unit-less"},
        assumptions=["Decimal arithmetic = exact result rounded half-even to the context precision (28): encoded in integer arithmetic; every recorded operand of every concrete run is recomputed through the encoding and compared with the real Decimal",
                     "programs are extracted by running the real compare_values / pint with an instrumented Decimal subclass (as_decimal returns the instrumented value); path enumeration is driven by z3 until the domain is covered",
                     "exact quantities: pint registry of the same class instantiated with Fraction arithmetic + the unit definitions the repo added, copied from the live registry objects",
                     "value strings are plain positional decimals inside the domain; NaN / Infinity / exponents outside the domain are not covered",
                     "in addition the boundary seeds (0/0, pairs of equal physical quantity and their neighbours) are screened concretely on the real function; pairs converting to/from Fahrenheit divide by a 28-digit constant and may time out (reported as inconclusive)"]),
]


LEVEL = "model_checking"
MANIFEST = {
    "level": "model_checking",
    "text": "(i) exhaustive table of are_comparable / get_compatible_unit_names over all ordered pairs of supported units; (ii) bounded symbolic execution (CrossHair) of compare_values' own control flow with exact rational quantities: all seven operators on the same symbolic operands are mutually consistent and equal to the rational comparison; (iii) the Decimal programs pint really executes are extracted by concolic execution of the real compare_values with an instrumented Decimal, encoded in z3 integer arithmetic with explicit round-half-even at the context precision, and z3 decides for all values with up to 6+3 (quick) / 9+4 (thorough) digits: trichotomy, '!=' = not '=', '<=' / '>=' = strict or equal, '==' = '=', agreement of <, =, > with the exact rational quantities, and that no violation exists beyond rounding distance.",
    "note": "Bounded: value domain n*10^-E with |n| < 10^9 (quick) / 10^13 (thorough); quick covers one pair per (first unit, other unit) of each quantity, thorough all ordered comparable pairs. Trusted: z3, the Decimal encoder (every recorded operand of every concrete run is recomputed through the encoding and compared with the real Decimal; results compared with the un-instrumented compare_values on witnesses, the repo's test inputs and boundary values), the Fraction instantiation of the registry as ground truth. Rounding-level findings are keyed per quantity, anything else per unit pair.",
    "technique": "finite table + symbolic execution of the real code (CrossHair) + solver-driven concolic extraction of pint's Decimal arithmetic with z3 integer queries; witnesses replayed on the real compare_values",
}
