"""C16  Reported tag times are the engine time of the change.

Real code: the whole engine; subject = Tag.set_value / simulate_value / stop_simulation, the interpreter call sites
that set tags (Block tag, Simulate, Mark, Base, Run counter), Engine.update_calculated_tags, Engine.notify_tag_updates,
the tag update queue consumed by EngineMessageBuilder.collect_tag_updates.

Solver variables: every tick increment (strictly positive real) -- so a tick *number* can never be mistaken for a
tick *time* by accident -- and the tick at which the user pauses/unpauses.
Oracle: after every tick the update queue is drained (as the engine runner does); for every drained tag whose
reported value changed in this tick the reported time must equal this tick's time; per tag the times never
decrease and lie within [engine start, now].
"""
from symx.obligation import Obligation
from props.engine_common import engine_rig

TEMPLATES = {
    "block_sim": "Mark: A\nBlock: B1\n    Simulate: In1 = 7\n    Mark: B\n    Simulate off: In1\n    End block\nMark: C\n",
    "nested": "Block: B1\n    Block: B2\n        Mark: A\n        End blocks\nRun counter: 3\nBase: s\nMark: B\n",
    "outputs": "SetOut1: 5\nMark: A\nPause: 0.3s\nMark: B\nIncrement run counter\n",
    # two concurrent flows each opening a block: the Watch's block has to wait several ticks for the block lock
    "two_flows": "Watch: In1 > 0\n    Block: W\n        Mark: X\n        End block\nBlock: A\n    Mark: A\n    Mark: B\n    Mark: C\n    End block\nMark: Z\n",
    "alarm_block": "Alarm: In1 > 0\n    Block: BA\n        Mark: A1\n        End block\nMark: M1\nMark: M2\nMark: M3\n",
}
N = {"block_sim": 16, "nested": 14, "outputs": 14, "two_flows": 24, "alarm_block": 22}


def harness(sym):
    import time as _time
    from queue import Empty
    import openpectus.lang.exec.tags as tags_mod
    t = sym.shard["template"]
    start = 1000.0

    class _Clock:                     # tags stamp themselves with time.time() at construction: give them the engine start
        @staticmethod
        def time():
            return start
    orig_time = tags_mod.time
    tags_mod.time = _Clock
    try:
        _body(sym, t, start)
    finally:
        tags_mod.time = orig_time


def _body(sym, t, start):
    from queue import Empty
    from props.interp_common import TEMPLATES as INTERP_TEMPLATES
    pcode = TEMPLATES[t] if t in TEMPLATES else INTERP_TEMPLATES[t]
    n_ticks = N.get(t, 26)
    ctl = sym.shard.get("control")
    ctl_tick = None
    if ctl:
        ctl_tick = sym.shard["ctl_tick"] if "ctl_tick" in sym.shard else sym.int("ctl_tick", 2, 10)
    with engine_rig(sym, pcode, durations={"SetOut1": 2, "CmdA": 3, "CmdB": 2, "CmdC": 2}) as rig:
        e = rig.engine
        rig.now = start
        e.uod.hwl.mem["In1"] = 1
        rig.user("Start")
        last_value, last_time = {}, {}
        for tg in e._iter_all_tags():
            last_value[tg.name] = tg.get_value()
        for i in range(n_ticks):
            if "ctl_tick" in sym.shard and not (ctl_tick - 1 <= i <= ctl_tick + 5):
                dt = 0.09375 + 0.0078125 * (i % 5)      # outside the window around the control command: irregular concrete increments
            else:
                dt = sym.real(f"d{i}", 0.0, 5.0, lo_strict=True)
            if ctl_tick is not None and ctl_tick == i:
                rig.user(ctl)
            if ctl_tick is not None and ctl in ("Pause", "Hold") and ctl_tick + 3 == i:
                rig.user("Unpause" if ctl == "Pause" else "Unhold")
            if t == "outputs" and i == 9:
                rig.user("Pause")
            if t == "outputs" and i == 11:
                rig.user("Unpause")
            rig.tick(dt)
            now = rig.now
            sym.check(not rig.tick_errors, "tick-raised", f"Engine.tick raised {rig.tick_errors[:1]}")
            drained = {}
            try:
                while True:
                    tg = e.tag_updates.get_nowait()
                    drained[tg.name] = tg.as_readonly()
            except Empty:
                pass
            for name, tv in drained.items():
                if name in ("Clock",):
                    pass
                changed = tv.value != last_value.get(name)
                if changed:
                    sym.check(tv.tick_time == now, f"time-of-change|tag={name}",
                              lambda: f"{t} tick {i}: tag {name} changed to {tv.value!r} in this tick but is reported with time {tv.tick_time} (tick time {now}, tick number {e._tick_number})")
                if name in last_time:
                    sym.check(tv.tick_time >= last_time[name], f"time-decreased|tag={name}",
                              lambda: f"{t} tick {i}: reported time of {name} went from {last_time[name]} to {tv.tick_time}")
                sym.check(tv.tick_time >= start and tv.tick_time <= now, f"time-out-of-range|tag={name}",
                          lambda: f"{t} tick {i}: tag {name} reported with time {tv.tick_time}, engine start {start}, now {now}")
                last_time[name] = tv.tick_time
                last_value[name] = tv.value
        sym.note("template", t)


def _shards(tier):
    out = [{"template": t} for t in TEMPLATES]
    if tier == "quick":
        return out + [{"template": t, "control": "Pause"} for t in ("block_sim", "nested")] + [{"template": "block_sim", "control": "Stop"}, {"template": "outputs", "control": "Restart", "ctl_tick": 3}]
    from props.interp_common import TEMPLATES as INTERP_TEMPLATES
    out += [{"template": t} for t in INTERP_TEMPLATES]
    for c in ("Pause", "Hold", "Restart", "Stop"):
        for t in list(TEMPLATES) + ["block", "nested", "watch_block", "alarm_block", "macro", "uod_in_macro"]:
            if t in TEMPLATES or t in INTERP_TEMPLATES:
                out += [{"template": t, "control": c, "ctl_tick": k} for k in range(2, 11)]
    return out


OBLIGATIONS = [Obligation(
    name="tag_times", kind="crosshair", harness=harness, shards=_shards,
    cpu_budget={"quick": 300.0, "thorough": 4000.0},
    encoded=["openpectus.lang.exec.tags:Tag.set_value", "openpectus.lang.exec.tags:Tag.simulate_value", "openpectus.lang.exec.tags:Tag.stop_simulation",
             "openpectus.lang.exec.pinterpreter:PInterpreter.visit_BlockNode", "openpectus.lang.exec.pinterpreter:PInterpreter.visit_EndBlockNode",
             "openpectus.lang.exec.pinterpreter:PInterpreter.visit_EndBlocksNode", "openpectus.lang.exec.pinterpreter:PInterpreter.visit_SimulateNode",
             "openpectus.lang.exec.pinterpreter:PInterpreter.visit_SimulateOffNode", "openpectus.engine.engine:Engine.update_calculated_tags",
             "openpectus.engine.engine:Engine.notify_tag_updates"],
    symbolic="every tick increment: arbitrary real in (0, 5] s; the tick of the user's Pause/Hold/Restart/Stop (2..10) in the shards that have one",
    bounds={"quick": "5 templates (block + simulate/simulate off; nested blocks + End blocks + Run counter + Base; output command + pause/unpause; a Watch's block waiting for the block lock held by the main flow; block in a re-arming Alarm), 14-24 ticks",
            "thorough": "the 5 templates + every template of props/interp_common.py (sequences, nested blocks, watches, alarms, macros, UOD commands in macros / alarms), 14-26 ticks; plus Pause / Hold (3 ticks) / Restart / Stop at every tick 2..10 (one shard each) for 11 templates, with symbolic increments in the window of 7 ticks around the command and irregular concrete increments outside it"},
    assumptions=["floats modelled as reals; counterexamples replayed with IEEE floats", "the update queue is drained after every tick",
                 "UOD callbacks stamp the tags they set with the current tick time (harness UOD does)", "fake hardware; log statements removed at import"],
)]

MANIFEST = {
    "level": "model_checking",
    "text": "Symbolic execution (CrossHair/z3) of the real engine with every tick increment an arbitrary positive real: the reported time of each changed tag is compared with the symbolic tick time, so stamping with a tick number or a stale time is a solver-decided inequality, not a coincidence of sampled values.",
    "note": "Trusted: CrossHair real-valued float model, z3; quick: 5 templates + Pause / Stop at a solver-chosen tick; thorough: 24 templates and Pause / Hold / Restart / Stop at a solver-chosen tick.",
    "technique": "symbolic execution of the real engine (CrossHair + z3) with symbolic tick times, tag-update stream monitor, counterexample replay",
}
