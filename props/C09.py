"""C09  Unpause restores exactly the outputs from before that pause.

Real code: the whole engine; subject = PauseEngineCommand / UnpauseEngineCommand, Engine._apply_safe_state / _apply_state /
_prev_state / set_error_state, Stop / Start / Restart commands.

Solver variables: the history -- one event per tick from {Start, Stop, Pause, Unpause, hardware-read fault (pauses the
run on error), Restart, none} -- and the output values: before every pause the output tag Out1 is given a fresh
solver-chosen value, so a value restored from any *other* pause or run is distinguishable for some assignment.
Oracle: ghost variable = Out1 immediately before the most recent pause (user pause or error pause) of the current
run; after an Unpause takes effect the output must equal it.
"""
from symx.obligation import Obligation
from props.engine_common import engine_rig

EVENTS_Q = ["Start", "Stop", "Pause", "Unpause", "Fault"]
EVENTS_T = EVENTS_Q + ["Restart", "none"]
PCODE = "Mark: A\nWait: 60s\nMark: B\n"


def harness(sym):
    from openpectus.engine.hardware import HardwareLayerException
    n = sym.shard.get("n", 5)
    prefix = sym.shard.get("events", [])
    alphabet = sym.shard.get("alphabet", EVENTS_Q)
    with engine_rig(sym, PCODE) as rig:
        e = rig.engine
        hw = e.uod.hwl
        orig_read_batch = hw.read_batch
        fault = {"on": False}

        def read_batch(registers):
            if fault["on"]:
                raise HardwareLayerException("harness read fault")
            return orig_read_batch(registers)
        hw.read_batch = read_batch
        out1 = e.tags["Out1"]
        ghost = None            # Out1 immediately before the most recent pause of the current run
        run_id = None
        trace = []
        k = 0
        for i in range(n):
            ev = prefix[i] if i < len(prefix) else sym.choice(f"e{i}", alphabet)
            trace.append(ev)
            st_before = rig.system_state
            accepted = None
            if ev in ("Pause", "Fault") and st_before in ("Running", "Holding"):
                # the process changes the output before the pause: a fresh value per pause
                v = sym.int(f"v{k}", 1, 10 ** 6)
                k += 1
                out1.set_value(v, rig.now)
            before = out1.get_value()
            if ev == "Fault":
                fault["on"] = True
            elif ev != "none":
                accepted = rig.user(ev) is None
            rig.tick(0.1)
            fault["on"] = False
            sym.check(not rig.tick_errors, "tick-raised", lambda: f"{trace}: Engine.tick raised {rig.tick_errors[:1]}")
            st = rig.system_state
            rid = rig.tag("Run Id")
            run_changed = rid != run_id
            if run_changed:
                run_id = rid
                if st != "Paused":
                    ghost = None        # a new run (or no run): nothing paused yet in it
            if st == "Paused" and st_before != "Paused":
                ghost = before
            # (if the run also ended or was replaced in this very tick, a Stop/Restart acted after the Unpause: not judged)
            if ev == "Unpause" and accepted and st_before == "Paused" and st != "Paused" and not run_changed and rid is not None:
                now_val = out1.get_value()
                sym.check(ghost is not None, "unpause-without-pause", lambda: f"{trace}: Unpause took effect but no pause was seen in this run")
                if ghost is not None:
                    cause = "error-pause" if "Fault" in trace else "user-pause"
                    sym.check(now_val == ghost, f"unpause-restored-other-values|involves={cause}",
                              lambda: f"{trace}: after Unpause Out1 = {now_val!r}, value immediately before the most recent pause of this run = {ghost!r}")
        sym.note("trace", trace)


PCODE_TIMED = "Mark: A\nPause: 0.5s\nMark: B\nWait: 60s\n"


def harness_timed(sym):
    """A timed Pause issued by the method, undone early by the user (or expiring by itself): values captured by it are applied
    once, by the Unpause that ends it, and never again."""
    n = 18
    with engine_rig(sym, PCODE_TIMED) as rig:
        e = rig.engine
        out1 = e.tags["Out1"]
        u = sym.int("unpause_tick", 1, n)          # the user's Unpause request (refused unless the run is paused at that moment)
        v0 = sym.int("v0", 1, 10 ** 6)
        v1 = sym.int("v1", 1, 10 ** 6)
        sym.assume(v0 != v1)
        rig.user("Start")
        ghost = None
        expected = None                            # value Out1 must keep while the run is Running and nobody sets it
        resumed_at = None
        trace = []
        for i in range(n):
            st_before = rig.system_state
            if i == 1:
                out1.set_value(v0, rig.now)        # the process sets the output before the pause
                expected = v0
            if resumed_at is not None and i == resumed_at + 1 and st_before == "Running":
                out1.set_value(v1, rig.now)        # ... and to another value after the pause was undone
                expected = v1
            before = out1.get_value()
            accepted = None
            if i == u:
                accepted = rig.user("Unpause") is None
            rig.tick(0.1)
            sym.check(not rig.tick_errors, "tick-raised", lambda: f"Engine.tick raised {rig.tick_errors[:1]}")
            st = rig.system_state
            trace.append((i, st))
            if st == "Paused" and st_before != "Paused":
                ghost = before
            if st_before == "Paused" and st == "Running":
                resumed_at = i
                sym.check(out1.get_value() == ghost, "timed-pause|unpause-restored-other-values",
                          lambda: f"timed Pause ended at tick {i} ({'user Unpause' if accepted else 'expiry'}): Out1 = {out1.get_value()!r}, before the pause {ghost!r}")
                expected = ghost
            elif st_before == "Running" and st == "Running" and expected is not None:
                sym.check(out1.get_value() == expected, "timed-pause|stale-values-applied-while-running",
                          lambda: f"user Unpause at tick {u}: at tick {i} (Running, nobody set the output) Out1 = {out1.get_value()!r}, expected {expected!r}; states {trace}")
        sym.reach()


def _shards(tier):
    if tier == "quick":
        return [{"n": 6, "events": ["Start", a], "alphabet": EVENTS_Q} for a in EVENTS_Q]
    return [{"n": 7, "events": ["Start", a, b], "alphabet": EVENTS_T} for a in EVENTS_T for b in EVENTS_T]


_TIMED = Obligation(
    name="timed_pause_undone_early", kind="crosshair", harness=harness_timed, shards=lambda tier: [{}], cpu_budget={"quick": 200.0, "thorough": 600.0},
    encoded=["openpectus.engine.internal_commands_impl:PauseEngineCommand", "openpectus.engine.internal_commands_impl:UnpauseEngineCommand",
             "openpectus.engine.engine:Engine._apply_safe_state", "openpectus.engine.engine:Engine._apply_state"],
    symbolic="tick of the user's Unpause (1..18: before, during or after the method's 'Pause: 0.5s'), the output values set before the pause and after it was undone (distinct ints)",
    bounds={"quick": "one method with 'Pause: 0.5s', 18 ticks", "thorough": "same"},
    assumptions=["the output tag is changed by the harness only (stands for a UOD command)", "tick interval fixed; fake hardware; log statements removed at import"])

OBLIGATIONS = [_TIMED, Obligation(
    name="unpause_restores", kind="crosshair", harness=harness, shards=_shards,
    cpu_budget={"quick": 400.0, "thorough": 3000.0},
    encoded=["openpectus.engine.internal_commands_impl:PauseEngineCommand", "openpectus.engine.internal_commands_impl:UnpauseEngineCommand",
             "openpectus.engine.engine:Engine._apply_safe_state", "openpectus.engine.engine:Engine._apply_state", "openpectus.engine.engine:Engine.set_error_state",
             "openpectus.engine.internal_commands_impl:StopEngineCommand", "openpectus.engine.internal_commands_impl:StartEngineCommand",
             "openpectus.engine.internal_commands_impl:RestartEngineCommand"],
    symbolic="event per tick (selector), output value before each pause (fresh int 1..10^6 per pause)",
    bounds={"quick": "Start + 5 events over {Start, Stop, Pause, Unpause, hardware read fault}", "thorough": "Start + 6 events, alphabet extended with Restart and none"},
    assumptions=["one event per tick; the error pause is triggered by a hardware read fault (HardwareLayerException from read_batch)",
                 "the output tag is changed by the harness only immediately before a pause (stands for a UOD command having set it)",
                 "tick interval fixed; fake hardware; log statements removed at import"],
)]

MANIFEST = {
    "level": "model_checking",
    "text": "Bounded exhaustive symbolic execution (CrossHair/z3) of the real engine over all histories of runs, pauses (user and error), unpauses, stops and restarts of the bounded length, with a fresh symbolic output value before every pause: the value present after each effective Unpause is compared by the solver with the value immediately before the most recent pause of the same run.",
    "note": "Trusted: CrossHair/z3; histories beyond the bound outside the claim; a timed pause issued by the method and undone early is covered by obligation timed_pause_undone_early.",
    "technique": "symbolic execution of the real engine (CrossHair + z3), bounded exhaustive over event histories, symbolic output values, ghost-variable oracle, counterexample replay",
}
