"""C29  Plot-log persistence is monotone, throttled and faithful.

Real code: AggregatorMessageHandlers.handle_TagsUpdatedMsg -> FromEngine.tag_values_changed / _persist_tag_values,
TagsInfo.upsert, PlotLogRepository.store_tag_values / store_new_tag_info / create_plot_log (over the in-memory session).

Solver variables: the tick time of every reported tag value (arbitrary reals in [0, 1e10]: out of order, equal, late
first appearance), the reported int values, the data-log interval (any positive real).  The *shape* of the stream
(which tags each TagsUpdatedMsg carries, where a message is re-delivered) is enumerated by the shards.

Oracle (from the statement, weakest reading where it is ambiguous), over the PlotLogEntryValue rows of the run, per tag:
  a  stored timestamps strictly increase;
  b  two stored timestamps differ by at least the data-log interval ("at most once per interval");
  d  the stored value was reported by the engine for that tag with a tick time <= the stored timestamp;
  c  that report is not older than the report behind the previously stored value of the tag;
  e  the row belongs to the plot log of the run the values were reported for.
"""
from symx.obligation import Obligation
from props.agg_common import aggregator_world, ASSUMPTIONS_DB, ASSUMPTION_DATETIME

KINDS = ["A", "C", "AB", "AC", "B", "BC", "dup"]
RUN = "r1"
T_MAX = 10_000_000_000


def harness(sym):
    shapes = sym.shard["shapes"]           # a shard is a group of stream shapes; the solver picks one (forks)
    shape = shapes[sym.index("shape", len(shapes))] if len(shapes) > 1 else shapes[0]
    pre = sym.shard.get("pre", "")
    one_time = sym.shard.get("one_time", False)      # all tags of a message carry the same tick time
    with aggregator_world(sym) as w:
        interval = sym.real("interval", 0, None, lo_strict=True)
        w.register(interval=interval)
        reports = {}      # tag -> [(tick_time, value)] delivered so far
        stored = {}       # tag -> [(stored time, tick time of the report behind it)]
        serial = [0]

        def make(names, j):
            tvs = []
            tm = sym.real(f"t{j}", 0, T_MAX) if one_time else None
            for name in names:
                t = tm if one_time else sym.real(f"t{j}{name}", 0, T_MAX)
                v = sym.int(f"v{j}{name}", 1000 * serial[0], 1000 * serial[0] + 999)   # disjoint ranges: a value identifies its report
                serial[0] += 1
                tvs.append((name, t, v))
            return tvs

        def deliver(tvs, run_id):
            for name, t, v in tvs:
                reports.setdefault(name, []).append((t, v))
            w.tags(run_id, [w.tag_value(name, t, v) for name, t, v in tvs])

        if pre:
            deliver(make(pre, "p"), None)          # a report before the run starts (no run id yet)
        w.run_started(RUN)
        seen_rows = 0
        last = None
        for j, kind in enumerate(shape):
            if kind == "dup":
                if last is None:
                    return
                tvs = last
            else:
                tvs = make(kind, j)
            last = tvs
            deliver(tvs, RUN)
            rows = w.entry_values(seen_rows)
            seen_rows += len(rows)
            for plot_log, name, row in rows:
                where = f"after message {j} of {shape}"
                sym.check(plot_log is not None and plot_log.run_id == RUN, "row-in-other-plot-log", f"{where}: value row not in the plot log of {RUN}")
                T = row.tick_time
                src = None
                for (t, v) in reports.get(name, []):
                    if v == row.value_int:
                        src = t
                        break
                sym.check(src is not None, "value-never-reported", f"{where}: stored value of {name} was never reported for that tag")
                sym.check(src <= T, "stored-before-reported", f"{where}: value of {name} stored with a time before the tick time it was reported with")
                hist = stored.setdefault(name, [])
                if hist:
                    T0, src0 = hist[-1]
                    sym.check(T0 < T, "timestamps-not-increasing", f"{where}: stored timestamps of {name} do not strictly increase")
                    sym.check(T - T0 >= interval, "stored-twice-within-interval", f"{where}: {name} stored twice within one data-log interval")
                    sym.check(src >= src0, "older-value-stored", f"{where}: stored value of {name} is older than the one stored before")
                hist.append((T, src))
            sym.reach()


def _canonical(shape):
    """A and B are interchangeable (both plotted readings): keep the shapes in which A appears first."""
    for k in shape:
        if "A" in k:
            return True
        if "B" in k:
            return False
    return True


def _shapes(n):
    out = [[]]
    for _ in range(n):
        out = [s + [k] for s in out for k in KINDS]
    return [s for s in out if s[0] != "dup" and _canonical(s) and not any(a == "dup" and b == "dup" for a, b in zip(s, s[1:]))]


def _pairs(shape):
    return sum(1 for k in shape if len(k) == 2)


def _group(shapes, extra, k):
    """Shards of k shapes each (one worker task amortises its start-up over k shapes)."""
    return [dict(extra, shapes=shapes[i:i + k]) for i in range(0, len(shapes), k)]


def _shards(tier):
    s2, s3 = _shapes(2), _shapes(3)
    if tier == "quick":
        return (_group([s for s in s3 if _pairs(s) <= 1], {}, 6) + _group(s2, {}, 10) + _group(s2, {"pre": "A"}, 10))
    s4 = _shapes(4)
    return (_group(s3, {}, 4) + _group(s2, {"pre": "A"}, 8) + _group(s2, {"pre": "AC"}, 8) +
            _group([s for s in s4 if _pairs(s) == 0], {}, 8) + _group(s4, {"one_time": True}, 16))


OBLIGATIONS = [Obligation(
    name="plot_log_rows", kind="crosshair", harness=harness, shards=_shards,
    cpu_budget={"quick": 100.0, "thorough": 900.0},
    encoded=["openpectus.aggregator.aggregator:FromEngine.tag_values_changed",
             "openpectus.aggregator.aggregator:FromEngine._persist_tag_values",
             "openpectus.aggregator.models:TagsInfo.upsert",
             "openpectus.aggregator.aggregator_message_handlers:AggregatorMessageHandlers.handle_TagsUpdatedMsg",
             "openpectus.aggregator.data.repository:PlotLogRepository.store_tag_values",
             "openpectus.aggregator.data.repository:PlotLogRepository.store_new_tag_info",
             "openpectus.aggregator.data.repository:PlotLogRepository.create_plot_log"],
    symbolic="tick time of every reported tag value (real in [0,1e10], no ordering constraint), reported int values, data-log interval (positive real)",
    bounds={"quick": "every stream of 3 TagsUpdatedMsg for the active run in which at most one message carries 2 tags (each message: 1-2 tags out of two "
                     "plotted tags A,B and one unplotted tag C, or a re-delivery of the previous message); every stream of 2 such messages, also "
                     "preceded by a report before the run started; tick times per tag",
            "thorough": "every stream of 3 messages (per-tag tick times); every stream of 2 preceded by a pre-run report of A or of A and C; every stream of 4 "
                        "single-tag messages / re-deliveries; every stream of 4 messages of 1-2 tags in which the tags of one message share one tick time"},
    assumptions=ASSUMPTIONS_DB + [
        "floats modelled as reals (CrossHair RealBasedSymbolicFloat); counterexamples are replayed with binary64",
        "reported values are ints, pairwise distinct per report (disjoint ranges) so that a stored value identifies the report it came from; "
        "the code never branches on the value of these tags",
        ASSUMPTION_DATETIME,
        "the two plotted tags are interchangeable (streams in which B appears before A are covered by symmetry)",
        "the engine sends its UodInfoMsg (readings A,B; data-log interval) before the run starts; plain tags only (not Mark / Method Status / Run Id)",
    ],
)]


MANIFEST = {
    "level": "model_checking",
    "text": "Bounded exhaustive symbolic execution (CrossHair/z3) of the real handle_TagsUpdatedMsg -> FromEngine.tag_values_changed/_persist_tag_values, TagsInfo.upsert and PlotLogRepository.store_tag_values/store_new_tag_info/create_plot_log over an in-memory session: for every stream shape within the bound the tick time of every reported value is an unconstrained solver real (out of order, equal, late first appearance), values are symbolic ints and the data-log interval any positive real; the stored PlotLogEntryValue rows are checked per tag for strictly increasing timestamps, spacing of at least one interval, provenance (reported for that tag at or before the stored time) and non-regression.",
    "note": "Trusted: CrossHair's real-for-float model (stated assumption; counterexamples replayed with binary64), z3, the oracle in props/C29.py. SQLAlchemy session / SQLite replaced by an in-memory row store, ORM rows by plain records, models.datetime stubbed (debug formatting of a warning), publishers no-ops. Where the statement is ambiguous (per tag vs. per batch, > vs. >= interval) the weakest reading is checked. Longer streams, more than 2 tags per message, Mark/Method Status tags and float values are outside the claim.",
    "technique": "symbolic execution of the real code (CrossHair + z3) with real-valued tick times, bounded exhaustive over stream shapes, counterexample replay",
}
