"""C12  Cancel and Force requests take effect exactly as offered.

Real code: the whole engine; subject = Engine.cancel_instruction / force_instruction,
CommandManager.cancel_instruction / force_instruction / _cancel_command / _finalize_command,
Tracking.mark_cancelled / mark_forced, SupportCancelForce, Pause/Hold cancel().

Solver variables: request kind (cancel / force), request tick, index of the targeted item in the run log as
reported at that tick (or an unknown id), UOD command duration.
Oracle: offered -> the stated effect; not offered -> the request is refused or ignored and the rest of the
run is identical to the same run without the request (differential, same draws).
"""
from symx.obligation import Obligation
from props.interp_common import run_scenario

TEMPLATES = {
    "wait_long": "Mark: M1\nWait: 5s\nMark: M2\n",
    "pause_timed": "Mark: M1\nPause: 5s\nMark: M2\n",
    "hold_timed": "Mark: M1\nHold: 5s\nMark: M2\n",
    "uod_long": "Mark: M1\nCmdA\nWait: 5s\nMark: M2\n",
    "watch_never": "Mark: M1\nWatch: In1 > 0\n    Mark: W1\nMark: M2\nWait: 5s\n",
    "pause_untimed": "Mark: M1\nPause\nMark: M2\n",
    # a Watch whose condition becomes true at tick 6: a cancel may arrive before, in the tick of, or after activation
    "watch_later": "Mark: M1\nWatch: In1 > 0\n    Mark: W1\nMark: M2\nWait: 5s\n",
    # a timed Hold while the user pauses (tick 5) and unpauses (tick 9): paused and on hold at once
    "hold_timed_paused": "Mark: M1\nHold: 5s\nMark: M2\n",
}
USER_STEPS = {"hold_timed_paused": {5: "Pause", 9: "Unpause"}}
THOROUGH_TEMPLATES = {
    "alarm": "Mark: M1\nAlarm: In1 > 0\n    Mark: A1\nMark: M2\nWait: 5s\n",
    "two_cmds": "CmdA\nCmdB\nMark: M1\nWait: 5s\n",          # CmdA and CmdB are not mutually exclusive: both run side by side
    "wait_in_block": "Block: B\n    Mark: M1\n    Wait: 5s\n    Mark: M2\n    End block\nMark: M3\n",
    "wait_in_macro": "Macro: X\n    Mark: M1\n    Wait: 5s\n    Mark: M2\nCall macro: X\nMark: M3\n",
    "uod_in_watch": "Mark: M1\nWatch: In1 > 0\n    CmdA\n    Mark: W1\nMark: M2\nWait: 5s\n",
}
IN1 = {"watch_later": [6, 99], "alarm": [3, 99], "uod_in_watch": [2, 99]}
N = 12


def _observable(sc):
    """What the statement calls 'changes nothing' is judged on: marks, states, block events, UOD call kinds."""
    return {"marks": sc.marks_by_tick, "states": sc.states, "blocks": sc.block_events,
            "uod": [(t, n, ev) for (t, n, _i, ev) in sc.uod], "errors": len(sc.tick_errors),
            "writes": sc.writes}


def harness(sym):
    t = sym.shard["template"]
    pc = TEMPLATES[t] if t in TEMPLATES else THOROUGH_TEMPLATES[t]
    kind = sym.shard["kind"]
    durations = {c: sym.int(f"dur_{c}", 4, 8) for c in ("CmdA", "CmdB", "CmdC") if c in pc}
    ev_tick = sym.int("ev_tick", 1, N - 2)
    sym.shard["in1"] = list(IN1.get(t, (0, 0)))
    steps = USER_STEPS.get(t)
    on_tick = (lambda rig, i: rig.user(steps[i + 1]) if (i + 1) in steps else None) if steps else None     # issued before tick i + 1
    n = N + (4 if steps else 0)
    sc = run_scenario(sym, t, n, pcode=pc, durations=dict(durations), event=(kind, ev_tick), collect_runlog=True, on_tick=on_tick)
    sym.check(not sc.tick_errors, f"tick-raised|after={kind}", f"Engine.tick raised {sc.tick_errors[:1]} after {sc.events}")
    if not sc.events:
        return
    ev = sc.events[0]
    te = ev["tick"]
    tgt = ev["target"]
    if tgt is None or not ev["offered"]:
        # not offered (or unknown id): refused or ignored, and nothing changes
        base = run_scenario(sym, t, n, pcode=pc, durations=dict(durations), event=("none", None), collect_runlog=False, on_tick=on_tick)
        a, b = _observable(sc), _observable(base)
        for key in a:
            sym.check(a[key] == b[key], f"not-offered-request-changed-run|kind={kind}|what={key}|item={_cls(tgt)}",
                      f"{kind} on {tgt} at tick {te} (offered={ev['offered']}, raised={ev['raised']}) changed {key}: {a[key]} vs {b[key]}")
        return
    name = tgt["name"]
    if ev["raised"] is not None:
        return          # the engine refused the request (nothing was cancelled/forced): the statement demands nothing then
    if kind == "cancel":
        if name.startswith("Pause") or name.startswith("Hold"):
            bad = "Paused" if name.startswith("Pause") else "Holding"
            sym.check(sc.states[te] != bad, f"cancel-timed-{bad.lower()}-did-not-end",
                      f"cancel of {name} accepted at tick {te} but System State after that tick is {sc.states[te]}")
            # ... and it stays ended: the state it caused does not come back (e.g. when a simultaneous pause is undone)
            later = [i for i in range(te, len(sc.states)) if sc.states[i] == bad]
            sym.check(not later, f"cancel-timed-{bad.lower()}-came-back", f"cancel of {name} accepted at tick {te}; System State is {bad} again at ticks {later}; states {sc.states}")
        elif name in ("CmdA", "CmdB", "CmdC"):
            finals = [x for x in sc.uod if x[1] == name and x[3] == "final"]
            execs_after = [x for x in sc.uod if x[1] == name and x[3] == "exec" and x[0] >= te]
            inits = [x for x in sc.uod if x[1] == name and x[3] == "init"]
            # an instance that was initialised is finalised exactly once; a command cancelled before it started has no instance
            sym.check(len(finals) == len(inits), "cancel-uod-not-finalized-once", f"cancel of {name} at tick {te}: init calls {inits}, finalize calls {finals}")
            sym.check(not execs_after, "cancel-uod-executed-after-cancel", f"{name} executed after its cancel at tick {te}: {execs_after}")
            others = [c for c in ("CmdA", "CmdB", "CmdC") if c in pc and c != name]
            if others:
                # the cancel applies to the targeted command only: the other commands run as they do without the request
                base = run_scenario(sym, t, N, pcode=pc, durations=dict(durations), event=("none", None), collect_runlog=False)
                for c in others:
                    mine = [(tk, ev2) for (tk, n2, _i, ev2) in sc.uod if n2 == c]
                    ref = [(tk, ev2) for (tk, n2, _i, ev2) in base.uod if n2 == c]
                    sym.check(mine == ref, "cancel-uod-affected-other-command", f"cancel of {name} at tick {te}: callbacks of {c} are {mine}, without the request {ref}")
        elif name.startswith("Alarm"):
            ran = [i for i, m in enumerate(sc.marks_by_tick) if "A1" in m]
            first_after = [i for i in range(te, len(sc.marks_by_tick)) if sc.marks_by_tick[i].count("A1") > (sc.marks_by_tick[te - 1].count("A1") if te > 0 else 0)]
            sym.check(not first_after, "cancel-alarm-body-ran", f"Alarm cancelled (offered, accepted) before tick {te} but its body ran (again) at tick {first_after[:1]}; A1 marks first at {ran[:1]}")
        elif name.startswith("Watch"):
            ran = [i for i, m in enumerate(sc.marks_by_tick) if "W1" in m]
            # the cancel was offered and accepted before tick te ran: the body must not start in tick te or later
            sym.check(not ran or ran[0] < te, "cancel-watch-body-ran", f"Watch cancelled (offered, accepted) before tick {te} but its body ran at tick {ran[:1]}")
    else:  # force
        if name.startswith("Wait"):
            hit = [i for i, m in enumerate(sc.marks_by_tick) if "M2" in m]
            if te <= N - 5:
                sym.check(bool(hit) and hit[0] <= te + 3, "force-wait-did-not-proceed",
                          f"Wait forced at tick {te}; successor M2 appeared at {hit[:1]} (run of {N} ticks)")
        elif name.startswith("Watch"):
            hit = [i for i, m in enumerate(sc.marks_by_tick) if "W1" in m]
            if te <= N - 5 and t == "watch_never":
                sym.check(bool(hit) and hit[0] <= te + 4, "force-watch-did-not-run",
                          f"Watch forced at tick {te}; body mark W1 appeared at {hit[:1]}")


def _cls(tgt):
    if tgt is None:
        return "unknown-id"
    return tgt["name"].split(":")[0] + "/" + tgt["state"]


def _shards(tier):
    ts = list(TEMPLATES) + (list(THOROUGH_TEMPLATES) if tier != "quick" else [])
    return [{"template": t, "kind": k} for t in ts for k in ("cancel", "force")]


OBLIGATIONS = [Obligation(
    name="cancel_force", kind="crosshair", harness=harness, shards=_shards,
    cpu_budget={"quick": 400.0, "thorough": 1800.0},
    encoded=["openpectus.engine.engine:Engine.cancel_instruction", "openpectus.engine.engine:Engine.force_instruction",
             "openpectus.engine.command_manager:CommandManager.cancel_instruction", "openpectus.engine.command_manager:CommandManager.force_instruction",
             "openpectus.engine.command_manager:CommandManager._cancel_command", "openpectus.engine.command_manager:CommandManager._finalize_command",
             "openpectus.lang.exec.tracking:Tracking.mark_cancelled", "openpectus.lang.exec.tracking:Tracking.mark_forced",
             "openpectus.engine.internal_commands_impl:PauseEngineCommand.cancel", "openpectus.engine.internal_commands_impl:HoldEngineCommand.cancel"],
    symbolic="request tick (1..10), index of the targeted run-log item among those reported at that tick or an unknown id, UOD command duration 4..8 iterations",
    bounds={"quick": "7 templates (long Wait, timed Pause, timed Hold, long UOD command, Watch whose condition never holds, Watch whose condition becomes true at tick 6, untimed Pause) x {cancel, force}, 12 ticks, one request",
            "thorough": "+ 5 templates: re-arming Alarm, two UOD commands running side by side (the other one must be unaffected), Wait inside a block / a macro, UOD command inside a Watch"},
    assumptions=["requests are issued between ticks; one request per run", "'offered' = the cancellable/forcible flag of the item in the run log produced immediately before the request",
                 "'changes nothing' is judged on marks, System State, block events, UOD callbacks, hardware writes",
                 "instructions awaiting a threshold are not shown in the run log and therefore cannot be targeted (outside this check)",
                 "fake hardware; log statements removed at import"],
)]

MANIFEST = {
    "level": "model_checking",
    "text": "Bounded exhaustive symbolic execution (CrossHair/z3) of the real engine with one cancel or force request whose tick and target (any item of the run log reported at that tick, or an unknown id) are solver variables; offered requests are checked for their stated effect, non-offered ones differentially against the same run without the request.",
    "note": "Trusted: CrossHair/z3; six templates, one request per run, 12 ticks.",
    "technique": "symbolic execution of the real engine (CrossHair + z3), bounded exhaustive over request tick/target, differential oracle, counterexample replay",
}
