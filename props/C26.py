"""C26  Protocol messages round-trip through JSON.

Real code: openpectus.protocol.serialization.serialize / deserialize, every MessageBase subclass found by
introspection of the three protocol namespaces (messages, engine_messages, aggregator_messages) with the
models they contain, and -- as the JSON step -- the encoders the dispatchers really use:
  * `rpc`  : fastapi_websocket_rpc's RpcMessage(request=RpcRequest(arguments={"message_json": ...})).model_dump_json()
             on the sending side, json.loads + RpcMessage.model_validate on the receiving side (EngineDispatcher.send_async,
             AggregatorDispatcher.rpc_call: every EngineMessage / AggregatorMessage),
  * `json` : json.dumps / json.loads (replies `json.dumps(serialize(result))`, httpx `json=` for RegisterEngineMsg,
             the REST reply RegisterEngineReplyMsg).

Three obligations
  envelope        (concrete) `_type` / `_ns` chosen by the solver from catalogues assembled from the live namespaces
                             (every attribute name of every namespace, perturbed names, foreign modules, non-strings,
                             missing keys) plus every short string over a 3-letter alphabet: exactly the MessageBase
                             subclasses defined in a protocol namespace are accepted, everything else raises
                             ProtocolDeserializationException.  Measured: an unconstrained symbolic `_ns` / `_type` cannot
                             be kept symbolic -- deserialize formats the string into its error message (f-string) and
                             passes it to getattr, both concretise it, and CrossHair then enumerates the string domain
                             (36 000+ realisations, no exhaustion in 120 CPU s even for length <=3).  Hence selectors.
  class_identity  (table)    every message class: serialize -> JSON -> deserialize gives the same class (and an equal message).
  values          (concrete) CrossHair as a solver-guided generator over the declared field types; the values are
                             concretised at the pydantic-core boundary and each realised message is round-tripped.
                             This is exploration, not a bounded proof.
"""
from __future__ import annotations

from symx import Violation
from symx.obligation import Obligation
from props.io_common import lazy_check, detach, enum_str

LEVEL = "exploration"

# fields whose float value comes from hardware / UOD code and can therefore be any float, NaN and infinities included.
# Every other float field is a time, duration, ratio or axis limit computed by the engine from finite numbers.
NONFINITE_FIELDS = {("TagValue", "value")}

STR_CATALOGUE = ["", "a", "1", "-1.5", "null", "true", 'q"q', "b\\s", "\u00e9", "\u2028", "\x00", "\U0001F600", " ", "a,b", "{}"]
_CACHE = {}


# ------------------------------------------------------------------------------------------------------
# introspection of the live protocol namespaces (nothing is copied from the repo)
# ------------------------------------------------------------------------------------------------------
def _proto():
    if "proto" in _CACHE:
        return _CACHE["proto"]
    import inspect
    import openpectus.protocol.serialization as S
    import openpectus.protocol.messages as M
    import fastapi_websocket_rpc.schemas  # noqa: F401  (the rpc transport's own message schema; imported once, outside tracing)
    nss = list(S._message_namespaces)
    names = list(S._message_namespace_names)
    routes = []          # (namespace name, attribute name, class)
    classes = []         # unique message classes
    for ns in nss:
        for attr, obj in sorted(vars(ns).items()):
            if inspect.isclass(obj) and issubclass(obj, M.MessageBase) and obj.__module__ in names:
                routes.append((ns.__name__, attr, obj))
                if obj not in classes:
                    classes.append(obj)
    classes.sort(key=lambda c: (c.__module__, c.__qualname__))
    _CACHE["proto"] = {"S": S, "M": M, "nss": nss, "names": names, "routes": routes, "classes": classes}
    return _CACHE["proto"]


def _is_message_class(obj) -> bool:
    import inspect
    p = _proto()
    return inspect.isclass(obj) and issubclass(obj, p["M"].MessageBase) and obj.__module__ in p["names"]


def _cls_key(cls) -> str:
    return cls.__module__.rsplit(".", 1)[1] + "." + cls.__qualname__


def _transports(cls):
    import openpectus.protocol.engine_messages as EM
    import openpectus.protocol.aggregator_messages as AM
    if issubclass(cls, EM.EngineMessage) or (issubclass(cls, AM.AggregatorMessage) and cls is not AM.RegisterEngineReplyMsg):
        return ["rpc"]
    return ["json"]


def _through(transport, d):
    import json
    if transport == "json":
        return json.loads(json.dumps(d))
    from fastapi_websocket_rpc.schemas import RpcMessage, RpcRequest
    text = RpcMessage(request=RpcRequest(method="dispatch_message_async", arguments={"message_json": d})).model_dump_json()
    msg = RpcMessage.model_validate(json.loads(text))
    return msg.request.arguments["message_json"]


# ------------------------------------------------------------------------------------------------------
# values of declared types
# ------------------------------------------------------------------------------------------------------
def _unwrap(tp):
    import typing
    while typing.get_origin(tp) is typing.Annotated:
        tp = typing.get_args(tp)[0]
    return tp


def _is_union(tp):
    import typing, types
    return typing.get_origin(tp) in (typing.Union, types.UnionType)


def _is_model(tp):
    import inspect
    from pydantic import BaseModel
    return inspect.isclass(tp) and issubclass(tp, BaseModel)


def _minimal(tp):
    """Simplest value of a declared type (no solver involved)."""
    import typing, enum, inspect
    tp = _unwrap(tp)
    org = typing.get_origin(tp)
    if _is_union(tp):
        args = typing.get_args(tp)
        return None if type(None) in args else _minimal(args[0])
    if tp is type(None) or tp is typing.Any:
        return None
    if org is typing.Literal:
        return typing.get_args(tp)[0]
    if tp is bool:
        return False
    if tp is int:
        return 0
    if tp is float:
        return 0.0
    if tp is str:
        return ""
    if org in (list, typing.List) or tp is list:
        return []
    if org in (set, frozenset) or tp is set:
        return set()
    if org is dict or tp is dict:
        return {}
    if inspect.isclass(tp) and issubclass(tp, enum.Enum):
        return list(tp)[0]
    if _is_model(tp):
        return _minimal_kwargs(tp)
    raise NotImplementedError(f"no generator for declared type {tp!r}")


def _minimal_kwargs(cls):
    return {n: _minimal(f.annotation) for n, f in cls.model_fields.items() if f.is_required()}


class _Gen:
    """Solver-guided generator.  `value()` walks a declared type making one solver choice per alternative
    (union member, literal, container size, which nested field is varied, numeric region) and returns a
    *thunk*; scalars stay solver variables.  The thunks are called after the path has been detached from
    the search tree: there the solver's model is concretised (one witness per explored path) and the
    concrete value is handed to pydantic-core."""

    def __init__(self, sym, tier):
        self.sym = sym
        self.thorough = tier == "thorough"

    def value(self, tp, path, owner=None):
        import typing, enum, inspect
        sym = self.sym
        tp = _unwrap(tp)
        org = typing.get_origin(tp)
        if _is_union(tp):
            args = typing.get_args(tp)
            return self.value(args[sym.index(path + "|alt", len(args))], path, owner)
        if tp is type(None) or tp is typing.Any:
            return lambda: None
        if org is typing.Literal:
            args = typing.get_args(tp)
            lit = args[sym.index(path + "|lit", len(args))]
            return lambda: lit
        if tp is bool:
            b = True if sym.bool(path + "|bool") else False
            return lambda: b
        if tp is int:
            return self._int(path)
        if tp is float:
            return self._float(path, owner)
        if tp is str:
            return self._str(path)
        if org in (list, typing.List) or tp is list:
            (et,) = typing.get_args(tp) or (typing.Any,)
            items = self._seq(et, path, owner)
            return lambda: [t() for t in items]
        if org in (set, frozenset) or tp is set:
            (et,) = typing.get_args(tp) or (typing.Any,)
            items = self._seq(et, path, owner)
            return lambda: set(t() for t in items)
        if org is dict or tp is dict:
            kt, vt = typing.get_args(tp) or (typing.Any, typing.Any)
            mode = sym.index(path + "|dict", 4)
            if mode == 0:
                return lambda: {}
            if mode == 1:
                k = self.value(kt, path + ".key", owner)
                return lambda: {k(): _minimal(vt)}
            if mode == 2:
                v = self.value(vt, path + ".val", owner)
                return lambda: {_minimal(kt): v()}
            k = self.value(kt, path + ".key", owner)

            def two():
                d = {_minimal(kt): _minimal(vt)}
                d[k()] = _minimal(vt)
                return d
            return two
        if inspect.isclass(tp) and issubclass(tp, enum.Enum):
            members = list(tp)
            m = members[sym.index(path + "|enum", len(members))]
            return lambda: m
        if _is_model(tp):
            return self.model(tp, path)
        raise NotImplementedError(f"no generator for declared type {tp!r}")

    def model(self, cls, path):
        """kwargs of a nested model: one field explored (solver chooses which), the others minimal / defaulted."""
        fields = list(cls.model_fields.items())
        k = self.sym.index(path + "|field", len(fields) + 1)
        name, t = None, None
        if k < len(fields):
            name, f = fields[k]
            t = self.value(f.annotation, path + "." + name, (cls.__name__, name))

        def make():
            kwargs = _minimal_kwargs(cls)
            if name is not None:
                kwargs[name] = t()
            return kwargs
        return make

    def _seq(self, et, path, owner):
        n = self.sym.index(path + "|len", 3)
        if n == 0:
            return []
        if n == 1:
            return [self.value(et, path + "[0]", owner)]
        return [lambda: _minimal(et), self.value(et, path + "[1]", owner)]

    def _int(self, path):
        sym = self.sym
        v = sym.int(path + "|int", -2**70, 2**70)
        # regions the solver must cover: negative / zero / positive, beyond 2**53 (float-exact range), beyond 2**63 (i64)
        if v < 0:
            if v < -2**63:
                pass
        elif v > 0:
            if v > 2**53:
                if v > 2**63:
                    pass
        return lambda: int(sym.realize(v))

    def _float(self, path, owner):
        sym = self.sym
        kinds = ["grid", "int-valued", 1e22, 5e-324, 1.7976931348623157e308, -0.0, 0.1]
        if owner in NONFINITE_FIELDS:
            kinds += [float("nan"), float("inf"), float("-inf")]
        k = kinds[sym.index(path + "|fkind", len(kinds))]
        if k == "grid":
            g = sym.grid(path + "|grid", -2**30, 2**30, 64)
            if g < 0:
                pass
            return lambda: float(sym.realize(g))
        if k == "int-valued":
            n = sym.int(path + "|fint", -1000, 1000)
            return lambda: int(sym.realize(n))
        return lambda: k

    def _str(self, path):
        sym = self.sym
        k = sym.index(path + "|skind", len(STR_CATALOGUE) + 1)
        if k < len(STR_CATALOGUE):
            return lambda: STR_CATALOGUE[k]
        s = enum_str(sym, path + "|str", 2 if self.thorough else 1, 'a"\\1', min_len=1)
        return lambda: s


# ------------------------------------------------------------------------------------------------------
# the concrete decision: one realised message through serialize -> JSON -> deserialize
# ------------------------------------------------------------------------------------------------------
def _diff(a, b, path=""):
    """First difference between two dumped values, types included.  None when unchanged."""
    import math
    if isinstance(a, float) and isinstance(b, float):
        if (math.isnan(a) and math.isnan(b)) or a == b:
            return None
        return (path, "changed")
    if type(a) is not type(b):
        try:
            eq = bool(a == b)
        except Exception:
            eq = False
        return (path, "type-changed" if eq else "changed")
    if isinstance(a, dict):
        if set(map(_typed_key, a)) != set(map(_typed_key, b)):
            return (path + ".<keys>", "changed")
        for k in a:
            d = _diff(a[k], b[k], f"{path}.{k}")
            if d:
                return d
        return None
    if isinstance(a, (list, tuple)):
        if len(a) != len(b):
            return (path + ".<len>", "changed")
        for i, (x, y) in enumerate(zip(a, b)):
            d = _diff(x, y, f"{path}[{i}]")
            if d:
                return d
        return None
    if isinstance(a, (set, frozenset)):
        return None if set(map(_typed_key, a)) == set(map(_typed_key, b)) else (path, "changed")
    return None if a == b else (path, "changed")


def _typed_key(k):
    return (type(k).__name__, k)


def _mechanism(dump) -> str | None:
    """Value class that explains a failed round trip (part of the signature: identifies what fails, not the value)."""
    import math
    found = set()

    def walk(x):
        if isinstance(x, float) and not math.isfinite(x):
            found.add("non-finite-float")
        elif isinstance(x, dict):
            for k, v in x.items():
                if not isinstance(k, str):
                    found.add("non-string-dict-key")
                walk(v)
        elif isinstance(x, (list, tuple, set, frozenset)):
            for v in x:
                walk(v)
    walk(dump)
    return "+".join(sorted(found)) or None


def _roundtrip_failures(msg, where: str):
    """[(signature, detail)] for one concrete message (empty list = survived unchanged with the same type)."""
    p = _proto()
    S = p["S"]
    from openpectus.protocol.exceptions import ProtocolDeserializationException
    out = []
    cls = type(msg)
    before = msg.model_dump()
    for tr in _transports(cls):
        mech = _mechanism(before)
        what = mech or where
        try:
            wire = _through(tr, S.serialize(msg))
        except Exception as ex:
            out.append((f"roundtrip|{tr}|{what}|not-serializable", f"{_cls_key(cls)}: {type(ex).__name__}: {str(ex)[:200]}"))
            continue
        try:
            back = S.deserialize(wire)
        except ProtocolDeserializationException as ex:
            out.append((f"roundtrip|{tr}|{what}|rejected", f"{_cls_key(cls)} [{where}]: own JSON is rejected: {str(ex)[:300]}"))
            continue
        except Exception as ex:
            out.append((f"roundtrip|{tr}|{what}|escapes", f"{_cls_key(cls)}: {type(ex).__name__}: {str(ex)[:200]}"))
            continue
        if type(back) is not cls:
            out.append((f"roundtrip|{tr}|{what}|other-class", f"{_cls_key(cls)} came back as {_cls_key(type(back))}"))
            continue
        d = _diff(before, back.model_dump())
        if d is not None:
            out.append((f"roundtrip|{tr}|{what}|{d[1]}", f"{_cls_key(cls)} [{where}]: field {d[0].lstrip('.')} differs after the round trip "
                        f"({_leaf(before, d[0])} -> {_leaf(back.model_dump(), d[0])})"))
    return out


def _leaf(dump, path):
    import re
    cur = dump
    try:
        for part in re.findall(r"\.([^.\[]+)|\[(\d+)\]", path):
            if part[0] == "<keys>":
                return "keys " + ", ".join(sorted(map(repr, cur.keys())))
            if part[0] == "<len>":
                return "length " + str(len(cur))
            cur = cur[part[0]] if part[0] else cur[int(part[1])]
        return repr(cur)
    except Exception:
        return "?"


def harness_values(sym):
    from pydantic import ValidationError
    with sym.concrete():
        p = _proto()
    cls = next(c for c in p["classes"] if _cls_key(c) == sym.shard["cls"])
    fname = sym.shard["field"]
    gen = _Gen(sym, sym.shard.get("tier", "quick"))
    thunk = None
    if fname != "<defaults>":
        thunk = gen.value(cls.model_fields[fname].annotation, fname, (cls.__name__, fname))
    detach(sym)          # from here on solver values are concretised: one witness per explored path
    with sym.concrete():
        kwargs = _minimal_kwargs(cls)
        if thunk is not None:
            kwargs[fname] = thunk()
        try:
            msg = cls(**kwargs)
        except ValidationError:
            msg = None              # not a message of this class (e.g. negative NonNegativeInt): nothing to round-trip
        fails = _roundtrip_failures(msg, _cls_key(cls) + "." + fname) if msg is not None else []
    if msg is None:
        sym.note("rejected_by_validation", True)
        return
    sym.note("message", _cls_key(cls))
    if fails:
        sym.check(False, fails[0][0], fails[0][1])
    sym.reach()


def _shards_values(tier):
    p = _proto()
    out = []
    for cls in p["classes"]:
        out.append({"cls": _cls_key(cls), "field": "<defaults>", "tier": tier})
        for fname in cls.model_fields:
            out.append({"cls": _cls_key(cls), "field": fname, "tier": tier})
    return out


# ------------------------------------------------------------------------------------------------------
# class identity (finite table)
# ------------------------------------------------------------------------------------------------------
def _identity_row(ns_name, attr, cls):
    """Violation signature/detail or None for one (namespace, name) route."""
    p = _proto()
    S = p["S"]
    msg = cls(**_minimal_kwargs(cls))
    d = S.serialize(msg)
    if attr == cls.__qualname__ and ns_name == cls.__module__:
        fails = _roundtrip_failures(msg, _cls_key(cls) + ".<defaults>")
        if fails:
            return fails[0]
    else:                       # alias route (e.g. aggregator_messages.SuccessMessage): same class through the other name
        d["_type"], d["_ns"] = attr, ns_name
    for tr in _transports(cls):
        back = S.deserialize(_through(tr, d))
        if type(back) is not cls:
            return (f"identity|{tr}|other-class", f"{ns_name}.{attr} deserializes to {_cls_key(type(back))}, not {_cls_key(cls)}")
        if back != msg:
            return (f"identity|{tr}|changed", f"{ns_name}.{attr}: default-valued message differs after the round trip")
    return None


def run_identity(shard, tier):
    p = _proto()
    res = {"queries": 0, "unsat": 0, "sat": 0, "unknown": 0, "table_rows": 0, "violations": [], "samples": []}
    for ns_name, attr, cls in p["routes"]:
        res["table_rows"] += 1
        try:
            bad = _identity_row(ns_name, attr, cls)
        except Exception as ex:
            bad = ("identity|raises", f"{ns_name}.{attr}: {type(ex).__name__}: {str(ex)[:300]}")
        if bad:
            res["violations"].append({"signature": bad[0], "detail": bad[1], "witness": {"ns": ns_name, "attr": attr}})
        elif len(res["samples"]) < 3:
            res["samples"].append({"route": f"{ns_name}.{attr}", "class": _cls_key(cls)})
    return res


def replay_identity(witness, shard):
    p = _proto()
    for ns_name, attr, cls in p["routes"]:
        if ns_name == witness["ns"] and attr == witness["attr"]:
            try:
                bad = _identity_row(ns_name, attr, cls)
            except Exception as ex:
                bad = ("identity|raises", f"{ns_name}.{attr}: {type(ex).__name__}: {str(ex)[:300]}")
            if bad:
                raise Violation(bad[0], bad[1])


# ------------------------------------------------------------------------------------------------------
# envelope
# ------------------------------------------------------------------------------------------------------
_MISSING, _SYMSTR = "<missing>", "<symbolic>"
_NONSTR = [("none", None), ("int", 7), ("list", ["x"]), ("dict", {"a": 1}), ("bytes", b"PingMsg"), ("bool", True), ("float", 1.5)]


def _ns_catalogue():
    """(label, value) candidates for `_ns`, assembled from the live namespace names."""
    if "nscat" in _CACHE:
        return _CACHE["nscat"]
    p = _proto()
    cat = []
    for n in p["names"]:
        cat.append(("exact", n))
    for n in p["names"]:
        cat += [("upper", n.upper()), ("trailing-space", n + " "), ("leading-space", " " + n), ("truncated", n[:-1]),
                ("extended", n + "x"), ("slashes", n.replace(".", "/")), ("bare-module", n.rsplit(".", 1)[1]),
                ("parent-package", n.rsplit(".", 1)[0]), ("dotted-suffix", n + "."), ("submodule-of-ns", n + ".Msg")]
    cat += [("foreign", m) for m in ("openpectus.protocol.models", "openpectus.protocol.serialization",
                                      "openpectus.protocol.exceptions", "openpectus.aggregator.models", "openpectus.engine.models",
                                      "pydantic", "builtins", "os", "subprocess", "")]
    cat += [("non-string:" + lab, v) for lab, v in _NONSTR]
    cat += [("missing", _MISSING), ("symbolic", _SYMSTR)]
    _CACHE["nscat"] = cat
    return cat


def _type_catalogue(k):
    """(label, value) candidates for `_type`; k = index of the namespace `_ns` names exactly, or None."""
    key = ("tcat", k)
    if key in _CACHE:
        return _CACHE[key]
    p = _proto()
    cat = []
    msg_names = sorted({attr for _ns, attr, _c in p["routes"]})
    if k is None:
        cat += [("class-name", n) for n in msg_names[:3]] + [("empty", ""), ("missing", _MISSING), ("non-string:none", None)]
    else:
        ns = p["nss"][k]
        own = sorted(dir(ns))
        cat += [("attribute", n) for n in own]
        mine = [a for n, a, _c in p["routes"] if n == ns.__name__]
        for n in mine:
            cat += [("lower", n.lower()), ("trailing-space", n + " "), ("leading-space", " " + n), ("truncated", n[:-1]),
                    ("qualified", ns.__name__ + "." + n), ("short-qualified", ns.__name__.rsplit(".", 1)[1] + "." + n),
                    ("member", n + ".model_fields"), ("doubled", n + n)]
        cat += [("other-namespace", n) for n in msg_names if n not in own]
        cat += [("dotted-through-import", a + "." + b) for a in own if type(getattr(ns, a)).__name__ == "module"
                for b in ("MessageBase", "ErrorMessage", "Method")]
        cat += [("builtin", n) for n in ("dict", "eval", "exec", "print", "object", "type", "__import__", "exit")]
        cat += [("empty", ""), ("missing", _MISSING), ("symbolic", _SYMSTR)]
        cat += [("non-string:" + lab, v) for lab, v in _NONSTR]
    _CACHE[key] = cat
    return cat


def harness_envelope(sym):
    with sym.concrete():
        p = _proto()
    S = p["S"]
    from openpectus.protocol.exceptions import ProtocolDeserializationException
    from pydantic import BaseModel
    import inspect
    thorough = sym.shard.get("tier") == "thorough"
    with sym.concrete():
        nscat = _ns_catalogue()
    ns_label, ns_val = nscat[sym.shard["ns"]]
    if ns_val is _SYMSTR:
        ns_val = enum_str(sym, "ns_str", 3 if thorough else 2, "a._")
    # which namespace does `_ns` name?  (decided here exactly like a reader of the property would: exact name)
    k = None
    if ns_val is not _MISSING and isinstance(ns_val, str):
        for i, n in enumerate(p["names"]):
            if ns_val == n:
                k = i
    with sym.concrete():
        tcat = _type_catalogue(k)
    t_label, t_val = tcat[sym.index("type_sel", len(tcat))]
    if t_val is _SYMSTR:
        t_val = enum_str(sym, "type_str", 3 if thorough else 2, "aM_")
    # what does (`_ns`, `_type`) name?
    target = None
    if k is not None and t_val is not _MISSING and isinstance(t_val, str):
        with sym.concrete():
            target = vars(p["nss"][k]).get(t_val, None)
    valid = target is not None and _is_message_class(target)
    matching = sym.bool("matching_payload")
    with sym.concrete():
        if matching and inspect.isclass(target) and issubclass(target, BaseModel):
            try:
                payload = target(**_minimal_kwargs(target)).model_dump()
            except Exception:
                payload = {}
        elif matching:
            payload = {"version": 0, "sequence_number": 5, "engine_id": "e"}
        else:
            payload = {}
    d = dict(payload)
    if ns_val is not _MISSING:
        d["_ns"] = ns_val
    if t_val is not _MISSING:
        d["_type"] = t_val
    category = ("known" if k is not None else "ns=" + ns_label) + "|type=" + t_label
    outcome, got = "returned", None
    try:
        got = S.deserialize(d)
    except ProtocolDeserializationException:
        outcome = "protocol-error"
    except Exception as ex:                                   # noqa: BLE001 - never BaseException under CrossHair
        outcome = "escapes:" + type(ex).__name__
    sym.note("case", category)
    lazy_check(sym, not outcome.startswith("escapes"), "envelope|" + outcome + "|" + category,
               lambda: f"deserialize raised {outcome[8:]} instead of ProtocolDeserializationException for _ns={_show(ns_val)} _type={_show(t_val)}")
    if not valid:
        lazy_check(sym, outcome == "protocol-error", "envelope|accepted|" + category,
                   lambda: f"_ns={_show(ns_val)} _type={_show(t_val)} names no message class of a protocol namespace "
                           f"but deserialize returned {type(got).__name__}")
    else:
        if matching:
            lazy_check(sym, outcome == "returned", "envelope|valid-rejected|" + category,
                       lambda: f"_ns={_show(ns_val)} _type={_show(t_val)} with the class's own default dump was rejected")
        if outcome == "returned":
            lazy_check(sym, type(got) is target, "envelope|other-class|" + category,
                       lambda: f"_ns={_show(ns_val)} _type={_show(t_val)} returned {type(got).__name__}")


def harness_history(sym):
    """deserialize keeps no state: the outcome for an envelope is the same whatever was deserialized before it."""
    with sym.concrete():
        p = _proto()
    S = p["S"]
    from openpectus.protocol.exceptions import ProtocolDeserializationException
    routes = p["routes"]
    ns0, attr0, cls0 = routes[sym.shard["prior"]]
    with sym.concrete():
        d0 = cls0(**_minimal_kwargs(cls0)).model_dump()
        d0["_type"], d0["_ns"] = attr0, ns0
        msg_names = sorted({a for _n, a, _c in routes})
    S.deserialize(d0)                                             # the earlier message (valid)
    k = sym.index("ns_sel", len(p["names"]))
    t_val = msg_names[sym.index("type_sel", len(msg_names))]
    ns_val = p["names"][k]
    with sym.concrete():
        target = vars(p["nss"][k]).get(t_val, None)
        valid = target is not None and _is_message_class(target)
        msg = target(**_minimal_kwargs(target)) if valid else None
        payload = msg.model_dump() if valid else dict(d0)
    d = dict(payload)
    d["_ns"], d["_type"] = ns_val, t_val
    outcome, got = "returned", None
    try:
        got = S.deserialize(d)
    except ProtocolDeserializationException:
        outcome = "protocol-error"
    except Exception as ex:                                   # noqa: BLE001
        outcome = "escapes:" + type(ex).__name__
    after = f"after {ns0.rsplit('.', 1)[1]}.{attr0}"
    lazy_check(sym, not outcome.startswith("escapes"), "history|" + outcome, lambda: f"{after}: deserialize raised {outcome[8:]} for _ns={ns_val} _type={t_val}")
    if not valid:
        lazy_check(sym, outcome == "protocol-error", "history|accepted", lambda: f"{after}: _ns={ns_val} _type={t_val} names no message class but deserialize returned {_cls_key(type(got))}")
    else:
        lazy_check(sym, outcome == "returned", "history|valid-rejected", lambda: f"{after}: _ns={ns_val} _type={t_val} with the class's own default dump was rejected")
        if outcome == "returned":
            lazy_check(sym, type(got) is target, "history|other-class", lambda: f"{after}: _ns={ns_val} _type={t_val} returned {_cls_key(type(got))}, not {_cls_key(target)}")
            with sym.concrete():
                same = got == msg
            lazy_check(sym, same, "history|changed", lambda: f"{after}: _ns={ns_val} _type={t_val}: message differs from the one serialized")


def _shards_history(tier):
    return [{"prior": i} for i in range(len(_proto()["routes"]))]


def _show(v):
    return repr(v)[:60]


def _shards_envelope(tier):
    return [{"ns": i, "tier": tier} for i in range(len(_ns_catalogue()))]


OBLIGATIONS = [
    Obligation(
        name="envelope", kind="crosshair", harness=harness_envelope, shards=_shards_envelope, decides="concrete",
        cpu_budget={"quick": 60.0, "thorough": 400.0},
        encoded=["openpectus.protocol.serialization:deserialize"],
        symbolic="selector over the `_type` catalogue (every attribute name of the namespace `_ns` names, perturbed / qualified / foreign names, "
                 "builtins, non-strings, missing key), every short string over a 3-letter alphabet for `_ns` and `_type` (character selectors), payload bit (empty / the target's own default dump); "
                 "`_ns` catalogue (exact, perturbed, foreign, non-string, missing) is the shard",
        bounds={"quick": "catalogues built from the live namespaces; every string of length <=2 over 3-letter alphabets",
                "thorough": "same catalogues; every string of length <=3"},
        assumptions=["every case is decided by a concrete run of deserialize: the strings are selector-assembled because deserialize concretises a symbolic "
                     "`_ns`/`_type` in its error f-string and in getattr (measured: no exhaustion)",
                     "a name that is not an attribute of the namespace module is represented by the catalogue and by the enumerated short strings "
                     "(module getattr depends on the name only through the module dict; no module-level __getattr__)",
                     "`-O` (asserts removed) is outside the claim",
                     "log statements removed at import"]),
    Obligation(
        name="envelope_after_history", kind="crosshair", harness=harness_history, shards=_shards_history, decides="concrete",
        cpu_budget={"quick": 60.0, "thorough": 200.0},
        encoded=["openpectus.protocol.serialization:deserialize"],
        symbolic="selectors for the judged envelope: `_ns` over the three protocol namespaces, `_type` over every message name of any namespace; the message deserialized before it is the shard",
        bounds={"quick": "every (namespace, name) route as the earlier message x every (namespace, message name) pair as the judged envelope; histories of length 1", "thorough": "same"},
        assumptions=["every case is decided by a concrete run; worker processes are reused between paths, so state left by earlier paths can only add alarms, which the replay (fresh process, same two envelopes) filters"]),
    Obligation(
        name="class_identity", kind="finite", run=run_identity, replay=replay_identity, decides="table",
        encoded=["openpectus.protocol.serialization:serialize", "openpectus.protocol.serialization:deserialize"],
        symbolic="none (finite table: every (namespace, attribute) route to a MessageBase subclass, found by introspection)",
        bounds={"quick": "all message classes, default / minimal field values", "thorough": "same"},
        assumptions=["JSON step = the dispatcher's encoder for that class (fastapi_websocket_rpc RpcMessage.model_dump_json + json.loads, or json.dumps/json.loads)"]),
    Obligation(
        name="values", kind="crosshair", harness=harness_values, shards=_shards_values, decides="concrete",
        cpu_budget={"quick": 80.0, "thorough": 600.0},
        encoded=["openpectus.protocol.serialization:serialize", "openpectus.protocol.serialization:deserialize"],
        symbolic="per message class and top-level field: solver choices over every alternative of the declared type (union member, literal, enum member, "
                 "container size 0..2, which nested field is varied), ints symbolic in +-2**70 with regions around 0 / 2**53 / 2**63, floats from a dyadic "
                 "grid and a catalogue of extreme values (NaN/inf only for TagValue.value), strings from a catalogue of JSON-sensitive texts and enumerated short strings; "
                 "all concretised when handed to pydantic-core",
        bounds={"quick": "one varied leaf per message, other fields minimal/default; containers up to 2 elements; catalogue strings + every 1-character string over {a, \", \\, 1}",
                "thorough": "same, every string of length 1..2 over {a, \", \\, 1}"},
        assumptions=["decision is concrete: pydantic-core, json are C code; the solver only generates inputs (exploration, not a proof)",
                     "one field is varied at a time (pydantic validates and dumps fields independently); cross products of field values are outside",
                     "non-finite floats are generated only for TagValue.value (hardware-derived); every other float field is engine-computed and finite",
                     "values rejected by the model's own validation are not messages and are skipped",
                     "JSON step = the dispatcher's encoder for that class (see module docstring)",
                     "unchanged = same class, same field values with the same Python types (NaN equals NaN, -0.0 equals 0.0)"]),
]

MANIFEST = {
    "level": "exploration",
    "text": "Envelope: deserialize is run on every (_ns, _type) case the solver selects from catalogues assembled from the live protocol namespaces (all attribute names, perturbed and "
            "foreign names, builtins, non-strings, missing keys, every short string over a small alphabet): exactly MessageBase subclasses defined in a protocol namespace are accepted, "
            "everything else raises ProtocolDeserializationException. Class identity: finite table over every message class found by introspection. Values: CrossHair as solver-guided "
            "generator over the declared field types of every message class; values are concretised at the pydantic-core boundary and every realised message goes through "
            "serialize -> the dispatcher's real JSON encoding -> deserialize and is compared type-strictly.",
    "note": "Exploration, not a proof: pydantic-core and json are C code, and deserialize itself concretises a symbolic _ns/_type (error f-string, getattr), so every case is decided by a concrete run; "
            "the solver enumerates cases and picks witnesses (one per path). One field varied at a time; containers up to 2 elements; non-finite floats only for TagValue.value. "
            "JSON step = fastapi_websocket_rpc RpcMessage.model_dump_json + json.loads for engine/aggregator messages, json.dumps/loads for replies and registration.",
    "technique": "solver-guided generation and selector enumeration with CrossHair + z3 over the real code, concrete decision per case, finite table for class identity, counterexample replay",
}
