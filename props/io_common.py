"""Shared helpers for the engine-I/O / protocol properties (C25, C26, C27, C39)."""
from __future__ import annotations


def same(a, b):
    """a == b; the very same (symbolic) object on both sides is equal without asking the solver."""
    return a is b or a == b


def lazy_check(sym, cond, signature, detail):
    """sym.check whose detail string (a callable) is only built on the failing branch:
    f-strings executed under the tracer are slow and concretise symbolic values."""
    if cond:
        sym.reach()
    else:
        sym.check(False, signature, detail() if callable(detail) else detail)


def realize(sym, v):
    """Concretise a solver value (the C boundary: pydantic-core, _csv, json)."""
    return sym.realize(v)


def detach(sym):
    """Detach the current path from CrossHair's search tree (no-op on replay).

    Realising a solver variable inside the tree makes CrossHair enumerate its whole domain (value == m / value != m
    forks).  After detaching, realisation only reads the solver's model: the path counts as one explored
    path with one solver-chosen witness -- the honest meaning of "concretised at the C boundary"."""
    if getattr(sym, "mode", "") == "symbolic":
        from crosshair.statespace import context_statespace
        context_statespace().detach_path()


def enum_str(sym, name, max_len, alphabet, min_len=0):
    """Every string over `alphabet` with min_len <= length <= max_len, one explored path per string.

    Length and each character are solver selectors (sym.index forks), so the enumeration is exhaustive by
    construction and the result is a concrete str.  (sym.str with an alphabet only *constrains* the characters:
    CrossHair then explores one representative per length, which is not an enumeration.)"""
    n = min_len + sym.index(name + "|len", max_len - min_len + 1)
    out = ""
    for i in range(n):
        out += alphabet[sym.index(name + "|c" + str(i), len(alphabet))]
    return out


def tracing(sym):
    """Context that switches CrossHair tracing back ON inside a `sym.concrete()` region (no-op on replay).

    Needed for the few lines that draw / branch on solver values when the surrounding code (an event loop,
    file I/O) runs untraced: arithmetic and comparisons on symbolic ints require the tracer."""
    if getattr(sym, "mode", "") == "symbolic":
        from crosshair.tracers import ResumedTracing
        return ResumedTracing()
    import contextlib
    return contextlib.nullcontext()
