"""Shared helpers for the engine-I/O / protocol properties (C25, C26, C27, C39)."""
from __future__ import annotations


def same(a, b):
    """a == b; the very same (symbolic) object on both sides is equal without asking the solver."""
    return a is b or a == b


def lazy_check(sym, cond, signature, detail):
    """sym.check whose detail string (a callable) is only built on the failing branch:
    f-strings executed under the tracer are slow and concretise symbolic values."""
    if cond:
        sym.reach()
    else:
        sym.check(False, signature, detail() if callable(detail) else detail)


def realize(sym, v):
    """Concretise a solver value (the C boundary: pydantic-core, _csv, json)."""
    return sym.realize(v)


def detach(sym):
    """Detach the current path from CrossHair's search tree (no-op on replay).

    Realising a solver variable inside the tree makes CrossHair enumerate its whole domain (value == m / value != m
    forks).  After detaching, realisation only reads the solver's model: the path counts as one explored
    path with one solver-chosen witness -- the honest meaning of "concretised at the C boundary"."""
    if getattr(sym, "mode", "") == "symbolic":
        from crosshair.statespace import context_statespace
        context_statespace().detach_path()
