"""C05  Blocks nest and end correctly; the Block tag names the active block.

Real code: the whole engine; subject = PInterpreter.visit_BlockNode / visit_EndBlockNode / visit_EndBlocksNode /
_abort_block_interrupts / _is_in_ended_block, ProgramNode.get_locked_blocks, BlockTimeTag stack events.

Observation: block start/end lifetime events (EventListener API), Block tag after every tick, Mark/UOD effects.
Oracle (from the statement): block end events always end the innermost active block (single nested chain);
Block tag == innermost active block or empty; nothing inside a block runs after it ended; an instruction
following a block at its level runs only after the block ended; Watch/Alarm bodies of an ended block do not run.
"""
from symx.obligation import Obligation
from props.interp_common import TEMPLATES, run_scenario, check_trace
from props.C02 import TICKS

BLOCK_TEMPLATES = [t for t in TEMPLATES if "Block" in TEMPLATES[t]]


def harness(sym):
    t = sym.shard["template"]
    n = sym.shard.get("n", TICKS[t])
    sc = run_scenario(sym, t, n, collect_runlog=False)
    sym.check(not sc.tick_errors, "C05|tick-raised", f"Engine.tick raised {sc.tick_errors[:1]}")
    check_trace(sym, sc, TEMPLATES[t], {"C05", "C04"} if False else {"C05"})


def _shards(tier):
    if tier == "quick":
        return [{"template": t, "n": min(TICKS[t], 16) if t != "two_watch_blocks" else 24} for t in BLOCK_TEMPLATES]
    return [{"template": t, "n": TICKS[t] + 4} for t in BLOCK_TEMPLATES]


OBLIGATIONS = [Obligation(
    name="block_chain", kind="crosshair", harness=harness, shards=_shards,
    cpu_budget={"quick": 300.0, "thorough": 2400.0},
    encoded=["openpectus.lang.exec.pinterpreter:PInterpreter.visit_BlockNode", "openpectus.lang.exec.pinterpreter:PInterpreter.visit_EndBlockNode",
             "openpectus.lang.exec.pinterpreter:PInterpreter.visit_EndBlocksNode", "openpectus.lang.exec.pinterpreter:PInterpreter._abort_block_interrupts",
             "openpectus.lang.exec.pinterpreter:PInterpreter._is_in_ended_block", "openpectus.lang.model.ast:ProgramNode.get_locked_blocks"],
    symbolic="ticks at which the Watch/Alarm condition tag switches on and off (decides whether interrupt flows start blocks / end blocks before, during or after the main flow's blocks); UOD durations",
    bounds={"quick": "all catalogue templates containing blocks (9), <=16 ticks", "thorough": "same templates, run length +4 ticks"},
    assumptions=["tick interval fixed at 0.1 s", "condition tag follows a single 0->1->0 step trajectory",
                 "fake hardware; log statements removed at import"],
)]

MANIFEST = {
    "level": "model_checking",
    "text": "Bounded exhaustive symbolic execution (CrossHair/z3) of the real interpreter on all catalogue templates with blocks (nested, sequential, End block/End blocks in bodies, in watches and alarms, blocks started from watches/alarms); the solver chooses when interrupt flows fire relative to the main flow; block events, Block tag and effects checked every tick.",
    "note": "Trusted: CrossHair/z3, reference structure in props/interp_common.py; template catalogue and run length bound the claim.",
    "technique": "symbolic execution of the real interpreter (CrossHair + z3), bounded exhaustive over interrupt timings, block-chain monitor, counterexample replay",
}
