"""C05  Blocks nest and end correctly; the Block tag names the active block.

Real code: the whole engine; subject = PInterpreter.visit_BlockNode / visit_EndBlockNode / visit_EndBlocksNode /
_abort_block_interrupts / _is_in_ended_block, ProgramNode.get_locked_blocks, BlockTimeTag stack events.

Observation: block start/end lifetime events (EventListener API), Block tag after every tick, Mark/UOD effects.
Oracle (from the statement): block end events always end the innermost active block (single nested chain);
Block tag == innermost active block or empty; nothing inside a block runs after it ended; an instruction
following a block at its level runs only after the block ended; Watch/Alarm bodies of an ended block do not run.
"""
from symx.obligation import Obligation
from props.interp_common import TEMPLATES, run_scenario, check_trace
from props.C02 import TICKS

BLOCK_TEMPLATES = [t for t in TEMPLATES if "Block" in TEMPLATES[t]]


def harness(sym):
    t = sym.shard["template"]
    n = sym.shard.get("n", TICKS[t])
    sc = run_scenario(sym, t, n, collect_runlog=False)
    sym.check(not sc.tick_errors, "C05|tick-raised", f"Engine.tick raised {sc.tick_errors[:1]}")
    check_trace(sym, sc, TEMPLATES[t], {"C05", "C04"} if False else {"C05"})


def harness_generated(sym):
    """Methods assembled by solver selectors (props/gen_methods.py): block events and Block tag of every tick (tolerant
    per-flow oracle) + the exact sequence of block start / end events of the main flow."""
    from props.gen_methods import generate, check_reference, Infeasible
    sh = sym.shard
    try:
        pc = generate(sym, sh["slots"], sh["body"], sh.get("watch", False), False, sh.get("first"), sh.get("blocks", 3), tuple(sh.get("pre", ())))
    except Infeasible:
        sym.assume(False)
    n = 2 * pc.count("\n") + 3 * pc.count("Wait:") + 8
    sc = run_scenario(sym, "generated", n, pcode=pc, collect_runlog=False)
    sym.check(not sc.tick_errors, "C05|generated|tick-raised", lambda: f"{pc!r}: Engine.tick raised {sc.tick_errors[:1]}")
    check_trace(sym, sc, pc, {"C05"})
    rows = pc.split("\n")
    watch_ends_block = any(ln.strip() == "End block" and i > 0 and rows[i - 1].strip().startswith("Mark: W") for i, ln in enumerate(rows))
    if not watch_ends_block:
        check_reference(sym, sc, pc, "C05")
    # at the end of a finished run no block is active
    if sc.marks_by_tick and "END" in sc.marks_by_tick[-1] and "Watch" not in pc:
        sym.check(not sc.block_tag[-1], "C05|generated|block-tag-after-end", lambda: f"{pc!r}: Block tag {sc.block_tag[-1]!r} after the method finished")


def _gen_shards(tier):
    cfgs = []
    if tier == "quick":
        cfgs += [{"slots": 2, "body": 2, "blocks": 2, "first": "block"}]
        cfgs += [{"slots": 2, "body": 2, "blocks": 2, "first": "block", "watch": True, "in1": [3, 99]}]
    else:
        cfgs += [{"slots": 3, "body": 2, "blocks": 2, "first": f} for f in ("mark", "block", "wait")]
        cfgs += [{"slots": 2, "body": 2, "blocks": 3, "first": "block"}]
        for a in (0, 3, 6, 10):
            cfgs += [{"slots": 3, "body": 2, "blocks": 2, "first": f, "watch": True, "in1": [a, 99]} for f in ("block", "watch")]
    return [dict(c, pre=[p0, p1]) for c in cfgs for p0 in range(7) for p1 in range(7)]


def _shards(tier):
    if tier == "quick":
        return [{"template": t, "n": min(TICKS[t], 16) if t != "two_watch_blocks" else 24} for t in BLOCK_TEMPLATES]
    return [{"template": t, "n": TICKS[t] + 4} for t in BLOCK_TEMPLATES]


_GENERATED = Obligation(
    name="generated_methods", kind="crosshair", harness=harness_generated, shards=_gen_shards,
    cpu_budget={"quick": 400.0, "thorough": 3000.0},
    encoded=["openpectus.lang.exec.pinterpreter:PInterpreter.visit_BlockNode", "openpectus.lang.exec.pinterpreter:PInterpreter.visit_EndBlockNode",
             "openpectus.lang.exec.pinterpreter:PInterpreter.visit_EndBlocksNode", "openpectus.lang.exec.pinterpreter:PInterpreter._abort_block_interrupts",
             "openpectus.lang.exec.pinterpreter:PInterpreter._is_in_ended_block"],
    symbolic="the kind of every item of the method (selectors over Mark / Wait / Block / End block / End blocks / Watch and the shape of the Watch body)",
    bounds={"quick": "first item a Block, 2 top-level items, bodies of 2 items + 'End block', nesting depth 2, at most 2 blocks; with and without one Watch (condition true from tick 3)",
            "thorough": "3 top-level items, bodies of 2 items (and 2 top-level items with up to 3 blocks), one Watch with the condition true from tick 0 / 3 / 6 / 10"},
    assumptions=["reference for the main flow (props/gen_methods.reference): a Block is left through End block (innermost) / End blocks (all); the start/end events of the main flow's blocks must be exactly the reference sequence",
                 "a Watch body is a separate flow judged by the tolerant per-flow oracle; when a Watch body itself contains 'End block' only that oracle is applied",
                 "tick interval fixed; fake hardware; log statements removed at import"])

OBLIGATIONS = [_GENERATED, Obligation(
    name="block_chain", kind="crosshair", harness=harness, shards=_shards,
    cpu_budget={"quick": 300.0, "thorough": 2400.0},
    encoded=["openpectus.lang.exec.pinterpreter:PInterpreter.visit_BlockNode", "openpectus.lang.exec.pinterpreter:PInterpreter.visit_EndBlockNode",
             "openpectus.lang.exec.pinterpreter:PInterpreter.visit_EndBlocksNode", "openpectus.lang.exec.pinterpreter:PInterpreter._abort_block_interrupts",
             "openpectus.lang.exec.pinterpreter:PInterpreter._is_in_ended_block", "openpectus.lang.model.ast:ProgramNode.get_locked_blocks"],
    symbolic="ticks at which the Watch/Alarm condition tag switches on and off (decides whether interrupt flows start blocks / end blocks before, during or after the main flow's blocks); UOD durations",
    bounds={"quick": "all catalogue templates containing blocks (9), <=16 ticks", "thorough": "same templates, run length +4 ticks"},
    assumptions=["tick interval fixed at 0.1 s", "condition tag follows a single 0->1->0 step trajectory",
                 "fake hardware; log statements removed at import"],
)]

MANIFEST = {
    "level": "model_checking",
    "text": "Bounded exhaustive symbolic execution (CrossHair/z3) of the real interpreter on all catalogue templates with blocks (nested, sequential, End block/End blocks in bodies, in watches and alarms, blocks started from watches/alarms); the solver chooses when interrupt flows fire relative to the main flow; block events, Block tag and effects checked every tick.",
    "note": "Trusted: CrossHair/z3, reference structure in props/interp_common.py; template catalogue and run length bound the claim.",
    "technique": "symbolic execution of the real interpreter (CrossHair + z3), bounded exhaustive over interrupt timings, block-chain monitor, counterexample replay",
}
