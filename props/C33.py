"""C33  Push notifications reach exactly the entitled subscribers.

Real code: openpectus.aggregator.webpush_publisher.WebPushPublisher.publish_message / _get_subscriptions_for_topic and
openpectus.aggregator.routers.auth.has_access.

Solver variables, per user: does the preference row select the topic, the notification scope, the recorded roles
(membership bits over a 2-role universe), is the unit among the listed units.  Per shard (concrete): the unit's required
roles, which users are contributors of the unit's run, the topic class (NEW_CONTRIBUTOR / another topic) and whom the
notification is about.  Every user has a fixed number of push subscriptions (2, 1, 1).

Reference (from the statement): a subscription of user u is entitled iff u's preferences contain the topic, u's recorded
roles grant access to the unit (no role required, or a common role) and the scope matches (all accessible units /
u is a contributor of the unit's run / the unit is listed).  Posted subscriptions must be entitled, none is posted twice,
a NEW_CONTRIBUTOR notification is never posted to a subscription of the contributor it is about, and -- title:
"exactly" -- every entitled subscription (other than the contributor's own) is posted.
"""
import contextlib

from symx.obligation import Obligation
from props.agg_common2 import patched, Stepper

ROLES = ["operator", "scientist"]
UNIT = "E1"
SUBS_PER_USER = [2, 1, 1]


class _Lazy:
    """draws each solver variable on first use (only what the code under test actually looks at is decided per path)"""

    def __init__(self, sym):
        self.sym = sym
        self.cache = {}

    def bit(self, name):
        if name not in self.cache:
            self.cache[name] = True if self.sym.bool(name) else False
        return self.cache[name]

    def choice(self, name, options):
        if name not in self.cache:
            self.cache[name] = self.sym.choice(name, options)
        return self.cache[name]


class _Prefs:
    """row of WebPushNotificationPreferences (same attribute names as the SQLAlchemy model)"""

    def __init__(self, lazy, k, topic, other_topic, scopes):
        self._l, self._k, self._topic, self._other, self._scopes = lazy, k, topic, other_topic, scopes
        self.user_id = f"user{k}"

    @property
    def selects_topic(self):
        return self._l.bit(f"u{self._k}_selects_topic")

    @property
    def topics(self):
        return [self._other, self._topic] if self.selects_topic else [self._other]

    @property
    def scope(self):
        return self._l.choice(f"u{self._k}_scope", self._scopes)

    @property
    def user_roles(self):
        return [r for j, r in enumerate(ROLES) if self._l.bit(f"u{self._k}_role{j}")]

    @property
    def process_units(self):
        return ["E0", UNIT] if self._l.bit(f"u{self._k}_lists_unit") else ["E0"]


class _Sub:
    """row of WebPushSubscriptions"""

    def __init__(self, user_id, n):
        self.user_id = user_id
        self.endpoint = f"https://push.example/{user_id}/{n}"
        self.auth = "a"
        self.p256dh = "p"


def harness(sym):
    import asyncio
    import openpectus.aggregator.webpush_publisher as WP
    import openpectus.aggregator.models as Mdl
    nusers = sym.shard["users"]
    required = [ROLES[j] for j in sym.shard["required"]]
    contributors = sym.shard["contributors"]            # indices of users that contributed; -1 = somebody without preferences
    about = sym.shard["about"]                          # None: topic is not NEW_CONTRIBUTOR; else contributor id the notification is about
    T = Mdl.NotificationTopic
    topic = T.NEW_CONTRIBUTOR if about is not None else T.RUN_STOP
    other_topic = T.BLOCK_START
    scopes = [Mdl.NotificationScope.PROCESS_UNITS_I_HAVE_ACCESS_TO,
              Mdl.NotificationScope.PROCESS_UNITS_WITH_RUNS_IVE_CONTRIBUTED_TO,
              Mdl.NotificationScope.SPECIFIC_PROCESS_UNITS]
    lazy = _Lazy(sym)
    posted = []

    class Repo:
        """WebPushRepository over two in-memory tables"""

        def __init__(self, prefs, subs):
            self.prefs, self.subs = prefs, subs

        def get_notification_preferences_for_topic(self, t):      # SELECT ... WHERE topics CONTAINS t
            return [p for p in self.prefs if t in p.topics]

        def get_subscriptions(self, user_ids):                     # SELECT ... WHERE user_id IN (...)
            return [s for s in self.subs if s.user_id in user_ids]

        def delete_subscription(self, s):
            self.subs.remove(s)

    class Db:
        @staticmethod
        @contextlib.contextmanager
        def create_scope():
            yield

        @staticmethod
        def scoped_session():
            return None

    class Clock:
        @staticmethod
        def time():
            return 1_700_000_000.0

    async def record_post(subscription, web_push_repository, notification):
        posted.append(subscription)

    def run_now(coro, **_k):
        s = Stepper(coro)
        s.step()
        if s.exception is not None:
            raise s.exception
        return object()

    async def gather(*tasks, **_k):
        return [None for _ in tasks]

    with sym.concrete():
        prefs = [_Prefs(lazy, k, topic, other_topic, scopes) for k in range(nusers)]
        subs = [_Sub(f"user{k}", n) for k in range(nusers) for n in range(SUBS_PER_USER[k])]
        repo = Repo(prefs, subs)
        unit = Mdl.EngineData(engine_id=UNIT, computer_name="pc", engine_version="1", uod_name="uod", uod_author_name="a",
                              uod_author_email="a@b", uod_filename="uod.py", location="lab")
        unit.required_roles = set(required)
        unit.contributors = {Mdl.Contributor(id=(f"user{k}" if k >= 0 else "somebody"), name=f"N{k}") for k in contributors}
        notification = Mdl.WebPushNotification.model_construct(
            title="uod", body="b", timestamp=int(Clock.time() * 1000), actions=[],
            data=Mdl.WebPushData(process_unit_id=UNIT, contributor_id=(about if about != "" else None)))
        pub = WP.WebPushPublisher.__new__(WP.WebPushPublisher)      # __init__ reads/writes key files
        pub.wp = object()
        pub._post_webpush = record_post
    shape = f"unit requires {required}, contributors {contributors}, topic {topic.name}, about {about!r}"
    with patched(sym, WP, "database", Db), patched(sym, WP, "WebPushRepository", lambda session: repo), \
            patched(sym, WP, "time", Clock), patched(sym, asyncio, "create_task", run_now), patched(sym, asyncio, "gather", gather):
        st = Stepper(pub.publish_message(notification, topic, unit))
        st.step()
        if st.state != "done":
            st.close()
            sym.check(False, "publish-did-not-complete", f"{shape}: publish_message suspended on something unexpected")
        if st.exception is not None:
            ex = st.exception
            sym.check(False, f"raises|publish_message|{type(ex).__name__}", f"{shape}: publish_message raised {type(ex).__name__}: {ex}")

    # ---- reference (statement) ------------------------------------------------------------------------
    entitled_users = []
    desc = []
    for k, p in enumerate(prefs):
        if not p.selects_topic:
            desc.append(f"user{k}: topic not selected")
            continue
        scope = p.scope
        roles = p.user_roles
        access = len(required) == 0 or any(r in required for r in roles)
        if scope == scopes[0]:
            ok = access
        elif scope == scopes[1]:
            ok = access and k in contributors
        else:
            ok = access and p._l.bit(f"u{k}_lists_unit")
        desc.append(f"user{k}: scope {scope.name}, roles {roles}, entitled {ok}")
        if ok:
            entitled_users.append(f"user{k}")
    shape = shape + "; " + "; ".join(desc)
    seen = []
    for s in posted:
        sym.check(not any(s is o for o in seen), "subscription-posted-twice", f"{shape}: {s.endpoint} posted twice")
        seen.append(s)
        sym.check(s.user_id in entitled_users, "posted-to-unentitled-subscriber", f"{shape}: posted to {s.endpoint}")
        if about is not None and about != "":
            sym.check(s.user_id != about, "new-contributor-notified-about-self", f"{shape}: posted to {s.endpoint}")
    for s in subs:
        if s.user_id in entitled_users and not (about is not None and s.user_id == about):
            sym.check(any(s is o for o in posted), "entitled-subscription-not-notified", f"{shape}: {s.endpoint} not posted")
    sym.reach()
    sym.note("posted", len(posted))


def _shards(tier):
    import itertools
    users = 2 if tier == "quick" else 3
    out = []
    # required roles of the unit: none / one role / both roles; thorough adds the mirror image {second role} for 2 users
    contrib_sets = []
    for r in range(users + 1):
        for c in itertools.combinations(range(users), r):
            contrib_sets.append(list(c))
    contrib_sets.append([-1])
    configs = [(users, [[], [0], [0, 1]], False)]
    if tier != "quick":
        configs.append((2, [[1]], True))
    for nu, reqs, with_anonymous_about in configs:
        for req in reqs:
            for cs in contrib_sets:
                if any(k >= nu for k in cs):
                    continue
                abouts = [None] + [f"user{k}" for k in cs if k >= 0] + (["somebody"] if cs == [-1] else [])
                if with_anonymous_about or tier != "quick":
                    abouts.append("")          # NEW_CONTRIBUTOR notification without a contributor id
                for about in abouts:
                    out.append({"users": nu, "required": req, "contributors": cs, "about": about})
    return out


OBLIGATIONS = [Obligation(
    name="targeting", kind="crosshair", harness=harness, shards=_shards,
    cpu_budget={"quick": 80.0, "thorough": 1500.0},
    encoded=["openpectus.aggregator.webpush_publisher:WebPushPublisher.publish_message",
             "openpectus.aggregator.webpush_publisher:WebPushPublisher._get_subscriptions_for_topic",
             "openpectus.aggregator.routers.auth:has_access"],
    symbolic="per user: topic-selected bit, scope selector (3), recorded-role membership bits (2 roles), unit-listed bit -- drawn lazily, "
             "so each path fixes exactly what the code looked at; per shard: unit's required roles, contributor set, topic class, contributor id of the notification",
    bounds={"quick": "2 users with 2 and 1 subscriptions, 2-role universe, unit requires no role / one role / both roles, all contributor sets, "
                     "topic NEW_CONTRIBUTOR about each contributor or another topic",
            "thorough": "3 users with 2, 1 and 1 subscriptions, same universe, plus NEW_CONTRIBUTOR without contributor id, plus (2 users) the mirror-image required role"},
    assumptions=["WebPushRepository/database replaced by in-memory tables: get_notification_preferences_for_topic = rows whose topics contain the topic, "
                 "get_subscriptions = rows whose user_id is IN the list (each row once); one preference row per user id (unique column)",
                 "preference/subscription rows are plain objects with the SQLAlchemy models' attribute names",
                 "_post_webpush replaced by a recorder; self.wp a dummy; publisher built without __init__ (key files)",
                 "asyncio.create_task runs the (await-free) recorder coroutine immediately; asyncio.gather returns immediately",
                 "webpush_publisher.time = fixed clock, notification fresh (the 5-minute age gate is not the subject)",
                 "log statements removed at import"],
)]

MANIFEST = {
    "level": "model_checking",
    "text": "Bounded exhaustive symbolic execution (CrossHair/z3) of the real WebPushPublisher.publish_message / _get_subscriptions_for_topic / has_access against a reference written from the statement: 2 (quick) / 3 (thorough) users with solver-chosen topic selection, scope, role bits and unit listing, all required-role sets, contributor sets and notification subjects.",
    "note": "Trusted: CrossHair bool/int models, z3, the in-memory repository (SQL IN / JSON contains semantics assumed), recorder instead of _post_webpush. 2-role universe, fixed subscription counts (2,1,1) per user, one process unit.",
    "technique": "symbolic execution of the real code (CrossHair + z3) against a reference model, lazily drawn solver variables, bounded exhaustive, counterexample replay",
}
