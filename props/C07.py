"""C07  Method clocks advance only while running.

Real code: Engine.tick / update_calculated_tags, BlockTimeTag / ScopeTimeTag (on_tick, on_runstate_change,
block/scope events), EventEmitter, all control commands, CommandManager — the whole real engine.

Solver variables: the tick increments (strictly positive reals, arbitrary), and the control command issued
before each tick (selector over none + 7 commands; user requests that the engine refuses are simply refused).
"""
from symx.obligation import Obligation
from props.engine_common import engine_rig, CONTROL

PCODE = "Mark: A\nBlock: B1\n    Mark: B\n    Wait: 30s\n    End block\nMark: C\n"
# a method whose third instruction fails: the run is paused by the error (no Pause command involved)
PCODE_ERR = "Block: B1\n    Mark: B\n    Foo\n    Wait: 30s\n"
# two failing instructions: the run is paused by the first error, resumed by the user without correcting the method, and paused again
PCODE_ERR2 = "Block: B1\n    Mark: B\n    Foo\n    Mark: C\n    Bar\n    Wait: 30s\n"
CMDS = ["none"] + CONTROL


def harness(sym):
    n = sym.shard.get("n", 4)
    prefix = sym.shard.get("cmds", [])
    second = sym.shard.get("second_error")
    resume_slot = sym.int("resume_slot", 1, n) if second else None
    with engine_rig(sym, PCODE_ERR2 if second else (PCODE_ERR if sym.shard.get("error") else PCODE)) as rig:
        e = rig.engine
        rig.user("Start")
        trace = ["Start"]
        prev_run_id = None
        warm = sym.shard.get("warm", 2)      # ticks without commands after Start: the interpreter needs them to enter the method
        for i in range(warm + 1 + n):
            if i > warm:
                j = i - warm
                if second:
                    c = second if j == resume_slot else "none"
                else:
                    c = prefix[j - 1] if j - 1 < len(prefix) else sym.choice(f"c{j}", CMDS)
                if c != "none":
                    rig.user(c)
                trace.append(c)
            elif i > 0:
                trace.append("none")
            dt = sym.real(f"d{i}", 0.0, 10.0, lo_strict=True)
            before = {k: rig.tag(k) for k in ("Process Time", "Run Time", "Block Time", "Scope Time")}
            st_before, run_before = rig.system_state, rig.tag("Run Id")
            rig.tick(dt)
            sym.check(not rig.tick_errors, "tick-raised", f"{trace}: Engine.tick raised {rig.tick_errors[:1]}")
            st_after, run_after = rig.system_state, rig.tag("Run Id")
            after = {k: rig.tag(k) for k in before}
            running = st_before == "Running" or st_after == "Running"
            active = (st_before not in ("Stopped",)) or (st_after not in ("Stopped",))
            # a run starts in this tick: clocks are zero
            if run_after is not None and run_after != run_before:
                for k in ("Process Time", "Run Time"):
                    sym.check(after[k] == 0.0, f"not-zero-at-run-start|clock={k}|via={'Restart' if 'Restart' in trace else 'Start'}",
                              f"{trace}: {k} is not 0 in the tick that starts a run")
            elif run_after is not None and run_after == run_before:
                for k in ("Process Time", "Run Time"):
                    sym.check(after[k] >= before[k], f"decreased|clock={k}", f"{trace}: {k} decreased during a run")
            if not running:
                for k in ("Process Time", "Block Time", "Scope Time"):
                    sym.check(after[k] == before[k], f"advanced-while-not-running|clock={k}|state={st_before}",
                              f"{trace}: {k} changed over a tick with System State {st_before}->{st_after}")
            if not active:
                sym.check(after["Run Time"] == before["Run Time"], "run-time-advanced-while-stopped",
                          f"{trace}: Run Time changed while no run is active")
            prev_run_id = run_after
        sym.note("trace", trace)


def _shards(tier):
    second = [{"n": 12, "second_error": "Unpause"}]
    if tier == "quick":
        return [{"n": 4, "cmds": [a, b]} for a in CMDS for b in CMDS] + [{"n": 5, "cmds": ["none", "none", a], "error": True} for a in CMDS] + second
    return [{"n": 5, "cmds": [a, b]} for a in CMDS for b in CMDS] + [{"n": 5, "cmds": ["none", "none", a, b], "error": True} for a in CMDS for b in CMDS] + second


OBLIGATIONS = [Obligation(
    name="clocks", kind="crosshair", harness=harness, shards=_shards,
    cpu_budget={"quick": 200.0, "thorough": 2400.0},
    encoded=["openpectus.engine.engine:Engine.tick", "openpectus.engine.engine:Engine.update_calculated_tags",
             "openpectus.lang.exec.tags_impl:BlockTimeTag", "openpectus.lang.exec.tags_impl:ScopeTimeTag",
             "openpectus.engine.internal_commands_impl:PauseEngineCommand", "openpectus.engine.internal_commands_impl:HoldEngineCommand",
             "openpectus.engine.command_manager:CommandManager.execute_commands"],
    symbolic="tick increments: arbitrary strictly positive reals (<=10 s) per tick; control command before each tick: selector over none/Start/Stop/Pause/Unpause/Hold/Unhold/Restart",
    bounds={"quick": "Start, 2 idle ticks, then 4 command slots each followed by a tick (7 ticks), one method with a block and a long Wait",
            "thorough": "Start, 2 idle ticks, then 5 command slots (8 ticks); plus a method whose instruction fails (error pause) followed by 3 command slots; plus (both tiers) a method with two failing instructions, resumed by Unpause at a solver-chosen slot of 12 (second error pause)"},
    assumptions=["floats modelled as reals (CrossHair RealBasedSymbolicFloat); counterexamples are replayed with IEEE floats",
                 "zero increments excluded (separate boundary, forks every set_value on 'unchanged')",
                 "a tick in which System State changes is tolerated either way (the statement does not fix the order inside a tick)",
                 "recording fake hardware; tag display formatting disabled; log statements removed at import"],
)]

MANIFEST = {
    "level": "model_checking",
    "text": "Bounded exhaustive symbolic execution (CrossHair/z3) of the real engine: every control-command sequence of the bounded length, with tick increments as arbitrary positive reals decided by the solver; clock tags compared before/after every tick.",
    "note": "Trusted: CrossHair real-valued float model, z3; fake hardware; one method template; sequences beyond the bound outside the claim.",
    "technique": "symbolic execution of the real engine (CrossHair + z3), bounded exhaustive over command sequences, symbolic time, counterexample replay",
}
