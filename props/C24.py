"""C24  No lost or stale hardware writes after an outage.

Real code: openpectus.engine.hardware_recovery.ErrorRecoveryDecorator write / write_batch /
filter_write_values / _write_pending_values / success_write / error_read_write / tick.

Solver variables per cycle: which operation (full write cycle, single-register write, tick burst),
the commanded values (unbounded ints), whether the decorated hardware fails, whether a reconnect
attempt fails, elapsed seconds before the operation (0..20000: both timeouts can be crossed).
"""
from symx import Violation
from symx.obligation import Obligation
from props.hw_common import recovery_decorator

OPS = ["batch", "writeA", "writeB", "read", "tick1", "tick6"]


def _cycles(sym, n):
    from openpectus.engine.hardware import HardwareLayerException
    from openpectus.engine.hardware_recovery import ErrorRecoveryState as S
    with recovery_decorator(sym) as (dec, hw, clock, regs, tag):
        A, B = regs
        commanded = {}
        prefix = sym.shard.get("ops", [])
        trace = []
        for i in range(n):
            op = prefix[i] if i < len(prefix) else sym.choice(f"op{i}", OPS)
            dt = sym.int(f"dt{i}", 0, 20000)
            clock.now = clock.now + dt
            fail = sym.bool(f"fail{i}")
            hw.fail = True if fail else False
            log_start = len(hw.log)
            raised = False
            if op == "batch":
                va = sym.int(f"va{i}", -2**31, 2**31)
                vb = sym.int(f"vb{i}", -2**31, 2**31)
                try:
                    dec.write_batch([va, vb], [A, B])
                    commanded["A"], commanded["B"] = va, vb
                except HardwareLayerException:
                    raised = True
            elif op in ("writeA", "writeB"):
                r = A if op == "writeA" else B
                v = sym.int(f"v{i}", -2**31, 2**31)
                try:
                    dec.write(v, r)
                    commanded[r.name] = v
                except HardwareLayerException:
                    raised = True
            elif op == "read":
                try:
                    dec.read_batch([A, B])      # the engine reads every tick; a successful read also takes Issue back to OK
                except HardwareLayerException:
                    raised = True
            else:
                cf = sym.bool(f"cfail{i}")
                hw.connect_fail = True if cf else False
                for _ in range(1 if op == "tick1" else 6):
                    dec.tick()
            trace.append(op)
            # (2) nothing stale: whatever the decorator wrote to a register during this call, the value it
            #     left there is the most recently commanded one.
            touched = {e[1] for e in hw.log[log_start:] if e[0] == "w"}
            for name in sorted(touched):
                sym.check(name in commanded and hw.mem[name] == commanded[name],
                          f"stale-write|op={op}|reg={name}",
                          f"after {trace} register {name} holds a value that is not the most recently commanded one")
            # (1) nothing lost: a full write cycle that succeeded with the connection OK leaves every register current
            if op == "batch" and not raised and not fail and dec.state == S.OK:
                for name in ("A", "B"):
                    sym.check(hw.mem.get(name) == commanded[name], f"lost-write|reg={name}",
                              f"after {trace} and a successful write cycle register {name} != commanded value")
        sym.note("trace", trace)


def harness(sym):
    _cycles(sym, sym.shard.get("n", 4))


def _shards(tier):
    if tier == "quick":
        return [{"n": 4, "ops": [a, b]} for a in OPS for b in OPS]
    third = ["batch", "tick6"]
    return [{"n": 5, "ops": [a, b, c]} for a in OPS for b in OPS for c in third]


OBLIGATIONS = [Obligation(
    name="write_cycles", kind="crosshair", harness=harness, shards=_shards,
    cpu_budget={"quick": 120.0, "thorough": 1500.0},
    encoded=["openpectus.engine.hardware_recovery:ErrorRecoveryDecorator.write",
             "openpectus.engine.hardware_recovery:ErrorRecoveryDecorator.write_batch",
             "openpectus.engine.hardware_recovery:ErrorRecoveryDecorator.filter_write_values",
             "openpectus.engine.hardware_recovery:ErrorRecoveryDecorator._write_pending_values",
             "openpectus.engine.hardware_recovery:ErrorRecoveryDecorator.success_write",
             "openpectus.engine.hardware_recovery:ErrorRecoveryDecorator.error_read_write",
             "openpectus.engine.hardware_recovery:ErrorRecoveryDecorator.tick"],
    symbolic="per cycle: operation selector, commanded int values (32-bit range), hardware failure bit, reconnect failure bit, elapsed seconds 0..20000",
    bounds={"quick": "4 cycles over {write_batch(A,B), write(A), write(B), read_batch, 1 tick, 6 ticks}, two registers",
            "thorough": "5 cycles, same operations (third cycle: a batch write or 6 ticks; every other cycle any operation)"},
    assumptions=["hardware_recovery.time replaced by a harness clock (arbitrary non-decreasing integer seconds)",
                 "_setup_decorated_method_forwards stubbed (irrelevant to writes)",
                 "decorated hardware = in-memory fake raising HardwareLayerException on a symbolic failure bit",
                 "int register values (the float isclose branch is outside this obligation)",
                 "log statements removed at import"],
)]

MANIFEST = {
    "level": "model_checking",
    "text": "Bounded exhaustive symbolic execution (CrossHair/z3) of the real ErrorRecoveryDecorator write path: every sequence of 4 (quick) / 5 (thorough) operations with symbolic values, failure bits and elapsed time is covered path by path; the solver decides every branch, so one path stands for all values taking it.",
    "note": "Trusted: CrossHair's int/bool models, z3; harness clock instead of time.time; fake decorated hardware; sequences longer than the bound and float register values are outside the claim.",
    "technique": "symbolic execution of the real code (CrossHair + z3), bounded exhaustive path exploration, counterexample replay",
}
