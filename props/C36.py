"""C36  Every changed tag is reported with its latest value.

Real code: the whole engine; subject = Engine.notify_tag_updates / notify_all_tags, ChangeListener / ChangeSubject,
EngineMessageBuilder.collect_tag_updates (+ to_model_tag), BlockTimeTag / ScopeTimeTag value updates,
Tag.set_value / simulate_value / stop_simulation.

Solver variables: the report schedule (a report is taken after 1..3 ticks, chosen per report), UOD command
duration, the tick at which the user pauses and unpauses.
Oracle: tag values are read through the public Tag.get_value at report times; a tag whose value differs from the
value at the previous report must be in the report, with the current value; no tag twice; a snapshot has all tags.
"""
from symx.obligation import Obligation
from props.engine_common import engine_rig

TEMPLATES = {
    "block_sim": "Mark: A\nBlock: B1\n    Simulate: In1 = 7\n    Mark: B\n    Wait: 0.3s\n    Simulate off: In1\n    End block\nMark: C\n",
    "outputs": "SetOut1: 5\nMark: A\nWatch: In1 > 0\n    Mark: W\nRun counter: 2\nWait: 0.4s\nBase: s\n",
    # simulate a tag with the value it already has, switch simulation off, let the real value change, simulate the same value again
    "resimulate": "Simulate: In1 = 7\nSimulate off: In1\nMark: A\nMark: B\nSimulate: In1 = 7\nMark: C\nSimulate off: In1\nSimulate: In1 = 9\nMark: D\n",
}
N = 18


def harness(sym):
    from openpectus.engine.engine_message_builder import EngineMessageBuilder
    t = sym.shard["template"]
    pause_at = sym.shard.get("pause_at")
    second_run = sym.shard.get("second_run", False)
    with engine_rig(sym, TEMPLATES[t], durations={"SetOut1": 2}, accumulators=second_run) as rig:
        e = rig.engine
        with sym.concrete():
            mb = EngineMessageBuilder(e, "", False)
        snap = mb.collect_tag_updates(snapshot=True)
        names = [tg.name for tg in e._iter_all_tags()]
        got = [tv.name for tv in snap]
        sym.check(sorted(got) == sorted(names), "snapshot-incomplete", f"snapshot has {sorted(got)}, engine has {sorted(names)}")
        prev = {tg.name: tg.get_value() for tg in e._iter_all_tags()}
        rig.user("Start")
        since = 0
        gap = sym.int("gap0", 1, 3)
        r = 0
        in1_before, in1_after = (7, 9) if t == "resimulate" else (0, 1)     # the real (hardware) value of In1 changes at tick 8
        e.uod.hwl.mem["In1"] = in1_before
        for i in range(N):
            if pause_at is not None and i == pause_at:
                rig.user("Pause")
            if pause_at is not None and i == pause_at + 3:
                rig.user("Unpause")
            if i == 8:
                e.uod.hwl.mem["In1"] = in1_after
            if second_run:
                # a first run with flow through the totalizer, Stop, and a second run without flow
                if i < 7:
                    e.uod.hwl.mem["Tot"] = 0.5 * (i + 1)
                if i == 7:
                    rig.user("Stop")
                if i == 11:
                    rig.user("Start")
            rig.tick(0.1)
            sym.check(not rig.tick_errors, "tick-raised", f"Engine.tick raised {rig.tick_errors[:1]}")
            since += 1
            if since == gap:
                report = mb.collect_tag_updates()
                rnames = [tv.name for tv in report]
                sym.check(len(rnames) == len(set(rnames)), "tag-twice-in-report", f"{t} tick {i}: {rnames}")
                byname = {tv.name: tv for tv in report}
                for tg in e._iter_all_tags():
                    cur = tg.get_value()
                    if cur != prev[tg.name]:
                        sym.check(tg.name in byname, f"changed-tag-not-reported|tag={tg.name}",
                                  f"{t} tick {i} (report after {since} ticks): {tg.name} changed {prev[tg.name]!r} -> {cur!r} but is not in the report {rnames}")
                        if tg.name in byname:
                            sym.check(byname[tg.name].value == cur, f"reported-value-not-latest|tag={tg.name}",
                                      f"{t} tick {i}: {tg.name} reported as {byname[tg.name].value!r}, current value {cur!r}")
                    prev[tg.name] = cur
                since = 0
                r += 1
                gap = sym.int(f"gap{r}", 1, 3) if r < sym.shard.get("free_gaps", 5) else 1
        snap = mb.collect_tag_updates(snapshot=True)
        sym.check(sorted(tv.name for tv in snap) == sorted(names), "snapshot-incomplete", "final snapshot lacks tags")
        sym.note("template", t)


def _shards(tier):
    out = []
    for t in TEMPLATES:
        for p in ([None, 6] if tier == "quick" else [None, 3, 6, 9, 12]):
            out.append({"template": t, "pause_at": p})
    out.append({"template": "outputs", "pause_at": None, "second_run": True})
    if tier != "quick":
        out += [{"template": t, "pause_at": None, "second_run": True} for t in ("block_sim", "resimulate")]
    return out


OBLIGATIONS = [Obligation(
    name="reports", kind="crosshair", harness=harness, shards=_shards,
    cpu_budget={"quick": 400.0, "thorough": 1800.0},
    encoded=["openpectus.engine.engine:Engine.notify_tag_updates", "openpectus.engine.engine:Engine.notify_all_tags",
             "openpectus.engine.engine_message_builder:EngineMessageBuilder.collect_tag_updates", "openpectus.lang.exec.tags_impl:BlockTimeTag.on_tick",
             "openpectus.lang.exec.tags_impl:ScopeTimeTag.on_tick", "openpectus.lang.exec.tags:Tag.set_value", "openpectus.lang.exec.tags:Tag.stop_simulation"],
    symbolic="number of ticks before each report (1..3, one solver variable per report)",
    bounds={"quick": "3 templates (block + simulation + wait; output command + watch + run counter + base; repeated simulate / simulate off of one tag with equal and different values while the real value changes) x {no pause, pause at tick 6}, 18 ticks",
            "thorough": "same templates, pause at ticks 3/6/9/12 or none; both tiers: a UOD with totalizer / accumulated volume and CV tags, first run with flow, Stop at tick 7, second Start at tick 11"},
    assumptions=["tick interval fixed at 0.1 s (values concrete; pydantic models are built by the real to_model_tag)",
                 "fake hardware; log statements removed at import"],
)]

MANIFEST = {
    "level": "model_checking",
    "text": "Bounded exhaustive symbolic execution (CrossHair/z3) of the real engine and message builder over all report schedules (1..3 ticks between reports) of 18-tick runs with blocks, simulation, outputs, pause/unpause; every tag's value at consecutive reports is compared with the report contents.",
    "note": "Trusted: CrossHair/z3; two templates, fixed tick interval.",
    "technique": "symbolic execution of the real engine (CrossHair + z3), bounded exhaustive over report schedules, counterexample replay",
}
