"""C38  Distinct engines never share an engine id; a registration cannot take over a connected engine's id.

Engine B (first sentence).  Nothing about the id format is copied: the structure is read off the live
`Aggregator.create_engine_id` by probing it.

  image_table   (finite table)  for EVERY non-surrogate code point c:  id(c,"") = qa(c).S  and
                id("",c) = S.qb(c) with S = id("",""); every image is the character itself or a run of
                %XX escapes that `urllib.parse.unquote` maps back to c; the images of each position form
                a prefix code (so the character-wise maps QA, QB are injective on strings).
  homomorphism  (concrete, solver-generated names)  id(a,b) = QA(a).S.QB(b) on names produced by z3
                (every ASCII character class, the separator, '%', non-ASCII, long names).
  id_injective  (z3, unbounded strings)  given the two facts above,
                    id(a,b) = id(a',b')  and  (a,b) != (a',b')
                is possible iff the concatenation (LA.S).LB is ambiguous, LA / LB = the languages of QA / QB
                images.  Ambiguity of a concatenation of regular languages is a pure membership query
                    u in LA.S,  u.z in LA.S,  z.v in LB,  v in LB,  z != ""
                (z3 decides it in milliseconds either way; the word-equation form a.S.b = a'.S.b' comes back
                `unknown` when it is unsatisfiable).  It is asked twice: over the exact alphabet of characters
                that are their own image (a sat model is then literally a pair of colliding names), and over
                an over-approximation of all images (identity characters + any %XX) for the proof.
                Every witness is replayed through the real `Aggregator.create_engine_id` with real
                `RegisterEngineMsg` objects.

Engine A (second sentence).  `AggregatorMessageHandlers.handle_RegisterEngineMsg` under CrossHair with a
fake dispatcher: sequences of registrations / connects / disconnects with symbolic secret and version
strings and symbolic event bits; a registration for an id that is connected must fail and must leave the
connected engine's data untouched.
"""
from __future__ import annotations

from symx import Violation
from symx.obligation import Obligation

Z3_TIMEOUT_MS = {"quick": 30000, "thorough": 120000}


# ---------------------------------------------------------------------------------------------------
# probing the live function
# ---------------------------------------------------------------------------------------------------
def _id_fn():
    """The real bound method Aggregator.create_engine_id of a real Aggregator (mock collaborators)."""
    from unittest.mock import MagicMock
    from openpectus.aggregator.aggregator import Aggregator
    agg = Aggregator(MagicMock(), MagicMock(), MagicMock())
    return agg.create_engine_id


class _Names:
    """Duck-typed stand-in for RegisterEngineMsg while probing (create_engine_id reads these two attributes);
    witnesses are replayed with real RegisterEngineMsg objects."""
    __slots__ = ("computer_name", "uod_name")

    def __init__(self, c, u):
        self.computer_name, self.uod_name = c, u


def _real_msg(computer, uod):
    import openpectus.protocol.engine_messages as EM
    from openpectus import __version__
    return EM.RegisterEngineMsg(computer_name=computer, uod_name=uod, uod_author_name="n", uod_author_email="e",
                                uod_filename="f", location="l", engine_version=__version__)


def _probe(f):
    """-> S, qa(ch), qb(ch) as functions on single characters (raises if the id is not of the form qa.S.qb)."""
    S = f(_Names("", ""))

    def qa(ch):
        v = f(_Names(ch, ""))
        if not v.endswith(S):
            raise RuntimeError(f"id({ch!r},'') = {v!r} does not end with id('','') = {S!r}: structure not recognised")
        return v[:len(v) - len(S)]

    def qb(ch):
        v = f(_Names("", ch))
        if not v.startswith(S):
            raise RuntimeError(f"id('',{ch!r}) = {v!r} does not start with id('','') = {S!r}: structure not recognised")
        return v[len(S):]
    return S, qa, qb


def _is_surrogate(c):
    return 0xD800 <= c <= 0xDFFF


# ---------------------------------------------------------------------------------------------------
# obligation 1: per-code-point table
# ---------------------------------------------------------------------------------------------------
def run_table(shard, tier):
    import re
    from urllib.parse import unquote
    pos = shard["position"]
    f = _id_fn()
    S, qa, qb = _probe(f)
    q = qa if pos == "computer_name" else qb
    pct = re.compile(r"(?:%[0-9A-Fa-f]{2})+\Z")
    r = {"queries": 0, "unsat": 0, "sat": 0, "unknown": 0, "table_rows": 0, "violations": [], "samples": []}
    images, cps = [], []
    seen = set()

    def emit(sig, detail, c):
        if sig not in seen:
            seen.add(sig)
            r["violations"].append({"signature": sig, "detail": detail, "witness": {"kind": "table", "position": pos, "codepoint": c}})

    for c in range(0x110000):
        if _is_surrogate(c):
            continue
        ch = chr(c)
        img = q(ch)
        r["table_rows"] += 1
        images.append(img)
        cps.append(c)
        if img == ch:
            continue
        if not pct.match(img) or unquote(img, errors="strict") != ch:
            emit(f"id-image|{pos}|not-an-escape-of-the-character", f"image of U+{c:04X} in {pos} is {img!r}", c)
    # prefix code: after sorting, a proper prefix (or duplicate) would be adjacent to one of its extensions
    order = sorted(range(len(images)), key=images.__getitem__)
    for i, j in zip(order, order[1:]):
        if images[j].startswith(images[i]):
            emit(f"id-image|{pos}|not-a-prefix-code", f"image {images[i]!r} is a prefix of image {images[j]!r}", cps[i])
            break
    ident = [i for i, img in enumerate(images[:128]) if img == chr(i)]
    r["samples"].append({"position": pos, "separator_image": S, "code_points": r["table_rows"],
                         "ascii_identity_chars": "".join(chr(i) for i in ident)})
    return r


def replay_table(w, shard):
    import re
    from urllib.parse import unquote
    f = _id_fn()
    S, qa, qb = _probe(f)
    q = qa if w["position"] == "computer_name" else qb
    ch = chr(w["codepoint"])
    img = q(ch)
    if img != ch and (not re.match(r"(?:%[0-9A-Fa-f]{2})+\Z", img) or unquote(img, errors="strict") != ch):
        raise Violation(f"id-image|{w['position']}|not-an-escape-of-the-character", f"image of {ch!r} is {img!r}")
    # (a prefix-code violation is re-established by the table itself; replay of the single pair:)
    for c2 in range(0x110000):
        if _is_surrogate(c2) or c2 == w["codepoint"]:
            continue
        if q(chr(c2)).startswith(img):
            raise Violation(f"id-image|{w['position']}|not-a-prefix-code", f"image {img!r} of {ch!r} is a prefix of the image of U+{c2:04X}")


# ---------------------------------------------------------------------------------------------------
# shared z3 pieces
# ---------------------------------------------------------------------------------------------------
def _alphabets():
    """From the live function: S, identity characters per position (ASCII), all-ASCII images."""
    f = _id_fn()
    S, qa, qb = _probe(f)
    ida = [chr(c) for c in range(128) if qa(chr(c)) == chr(c)]
    idb = [chr(c) for c in range(128) if qb(chr(c)) == chr(c)]
    return f, S, qa, qb, ida, idb


def _star_of(chars, extra=None):
    import z3
    from symx import rx
    parts = [rx.lit(c) for c in chars]
    if extra is not None:
        parts.append(extra)
    if not parts:
        return rx.eps()
    return z3.Star(parts[0] if len(parts) == 1 else z3.Union(*parts))


def _ambiguity_solver(LA, LB, S, timeout_ms, extra=()):
    """Solver for: the concatenation (LA.S).LB has a word with two different splits."""
    import z3
    from symx import rx
    L1 = z3.Concat(LA, rx.lit(S)) if S else LA
    u, z, v = z3.Strings("u z v")
    s = z3.Solver()
    s.set("timeout", timeout_ms)
    s.add(z3.InRe(u, L1), z3.InRe(z3.Concat(u, z), L1), z3.InRe(z3.Concat(z, v), LB), z3.InRe(v, LB), z3.Length(z) > 0)
    s.add(z3.Length(u) > len(S), z3.Length(v) > 0)       # all four names non-empty (host name / instrument name of a real engine)
    for e in extra:
        s.add(e(u, z, v))
    return s, (u, z, v)


def _names_from_model(model, uzv, S):
    from symx import rx
    u, z, v = (rx.model_str(model, x) for x in uzv)
    x1 = u[:len(u) - len(S)]
    x2 = (u + z)[:len(u + z) - len(S)]
    return {"a": x1, "b": z + v, "a2": x2, "b2": v}


def _collides(f, w):
    """Concrete decision on the real function with real message objects."""
    id1 = f(_real_msg(w["a"], w["b"]))
    id2 = f(_real_msg(w["a2"], w["b2"]))
    return (w["a"], w["b"]) != (w["a2"], w["b2"]) and id1 == id2, id1, id2


# ---------------------------------------------------------------------------------------------------
# obligation 3: injectivity, unbounded strings
# ---------------------------------------------------------------------------------------------------
def run_injective(shard, tier):
    import time
    import z3
    from urllib.parse import unquote
    from symx import rx
    to = Z3_TIMEOUT_MS[tier]
    f, S, qa, qb, ida, idb = _alphabets()
    r = {"queries": 0, "unsat": 0, "sat": 0, "unknown": 0, "table_rows": 0, "violations": [], "samples": [], "solver_s": 0.0,
         "cvc5": []}

    def check(sol, label):
        t = time.monotonic()
        res = sol.check()
        dt = time.monotonic() - t
        v = "sat" if res == z3.sat else ("unsat" if res == z3.unsat else "unknown")
        other = rx.cvc5_verdict(sol, 20000)
        r["cvc5"].append({"query": label, "z3": v, "cvc5": other})
        if other in ("sat", "unsat") and v in ("sat", "unsat") and other != v:
            v = "unknown"
        r["queries"] += 1
        r[v] += 1
        r["solver_s"] += dt
        r["samples"].append({"query": label, "verdict": v, "ms": round(dt * 1000, 1)})
        return v

    hexd = z3.Union(z3.Range(rx.sval("0"), rx.sval("9")), z3.Range(rx.sval("A"), rx.sval("F")), z3.Range(rx.sval("a"), rx.sval("f")))
    pct = z3.Concat(rx.lit("%"), hexd, hexd)
    # exact: names over the characters that are their own image (then image string == name)
    LA_id, LB_id = _star_of(ida), _star_of(idb)
    # over-approximation of ALL images (table obligation: every image is the character itself or a run of %XX)
    LA_all, LB_all = _star_of(ida, pct), _star_of(idb, pct)

    sol, uzv = _ambiguity_solver(LA_id, LB_id, S, to)
    v_exact = check(sol, "two different (computer, uod) pairs over identity characters with equal id")
    witness = _names_from_model(sol.model(), uzv, S) if v_exact == "sat" else None

    sol2, uzv2 = _ambiguity_solver(LA_all, LB_all, S, to)
    v_all = check(sol2, "two different image pairs with equal id, all characters (over-approximated images)")
    if v_all == "sat" and witness is None:
        # try to map the over-approximate model back to names
        m = _names_from_model(sol2.model(), uzv2, S)
        try:
            cand = {k: unquote(x, errors="strict") for k, x in m.items()}
            if _collides(f, cand)[0]:
                witness = cand
        except Exception:  # noqa
            pass
        if witness is None:
            r["unknown"] += 1          # ambiguous over-approximation, no concrete collision found: inconclusive
            r["samples"].append({"note": "over-approximation ambiguous but no concrete collision decoded", "model": m})

    if witness is not None:
        # cause: is a collision possible when the separator does not occur inside the computer names / the uod names?
        causes = {}
        if S:
            no_sep = z3.Complement(z3.Concat(rx.sigma_star(), rx.lit(S), rx.sigma_star()))
            solc, _ = _ambiguity_solver(z3.Intersect(LA_id, no_sep), LB_id, S, to)
            causes["computer-names-free-of-separator"] = check(solc, "collision with separator-free computer names")
            solu, _ = _ambiguity_solver(LA_id, z3.Intersect(LB_id, no_sep), S, to)
            causes["uod-names-free-of-separator"] = check(solu, "collision with separator-free uod names")
        sig = _collision_signature(witness, S)
        r["violations"].append({"signature": sig,
                                "detail": f"create_engine_id gives the same id for (computer_name, uod_name) = ({witness['a']!r}, {witness['b']!r}) and "
                                          f"({witness['a2']!r}, {witness['b2']!r}); separator {S!r}; refinement queries: {causes}",
                                "witness": dict(witness, kind="collision")})
    return r


def _collision_signature(w, S):
    """Stable class of a collision: does it need the separator inside the names?"""
    inside = bool(S) and ((S in w["a"] or S in w["a2"]) and (S in w["b"] or S in w["b2"]))
    return "engine-id-collision|separator-inside-names" if inside else "engine-id-collision|other"


def replay_injective(w, shard):
    f = _id_fn()
    S = f(_Names("", ""))
    hit, id1, id2 = _collides(f, w)
    if hit:
        raise Violation(_collision_signature(w, S),
                        f"Aggregator.create_engine_id: ({w['a']!r}, {w['b']!r}) -> {id1!r} and ({w['a2']!r}, {w['b2']!r}) -> {id2!r}")


# ---------------------------------------------------------------------------------------------------
# obligation 2: id(a,b) = QA(a).S.QB(b)  on solver-generated names (concrete decision)
# ---------------------------------------------------------------------------------------------------
def run_homomorphism(shard, tier):
    import z3
    from symx import rx
    f = _id_fn()
    S, qa, qb = _probe(f)
    r = {"queries": 0, "unsat": 0, "sat": 0, "unknown": 0, "table_rows": 0, "decisions": 0, "violations": [], "samples": []}
    a, b = z3.Strings("a b")
    n_per = 3 if tier == "quick" else 12
    any_ = rx.sigma_star()
    nonsur = z3.Complement(z3.Concat(any_, z3.Range(rx.sval(chr(0xD800)), rx.sval(chr(0xDFFF))), any_))
    shapes = {"any": any_, "long": z3.Loop(rx.sigma(), 20, 40), "ascii": z3.Plus(z3.Range(rx.sval(" "), rx.sval("~"))),
              "non-ascii": z3.Concat(any_, z3.Range(rx.sval(chr(0x80)), rx.sval(chr(rx.MAX_CP))), any_),
              "astral": z3.Concat(any_, z3.Range(rx.sval(chr(0x10000)), rx.sval(chr(rx.MAX_CP))), any_),
              "control": z3.Concat(any_, z3.Range(rx.sval(chr(0)), rx.sval(chr(31))), any_)}
    for ch in ("_", "%", "/", " ", "+", "?", "#", "&", "=", ".", "~", "-", "\\", "\"", "'", S or "_"):
        shapes["has:" + ch] = z3.Concat(any_, rx.lit(ch), any_)
    names = []
    for nm, sh in shapes.items():
        for var, other in ((a, b), (b, a)):
            sol = z3.Solver()
            sol.set("timeout", Z3_TIMEOUT_MS[tier])
            sol.add(z3.InRe(var, z3.Intersect(sh, nonsur)), z3.InRe(other, nonsur), z3.Length(a) <= 40, z3.Length(b) <= 40, z3.Length(a) >= 1, z3.Length(b) >= 1)
            for _ in range(n_per):
                res = sol.check()
                r["queries"] += 1
                if res != z3.sat:
                    r["unsat" if res == z3.unsat else "unknown"] += 1
                    break
                r["sat"] += 1
                va, vb = rx.model_str(sol.model(), a), rx.model_str(sol.model(), b)
                names.append((va, vb))
                sol.add(z3.Or(a != rx.sval(va), b != rx.sval(vb)))
    seen = set()
    for va, vb in sorted(set(names)):
        r["decisions"] += 1
        want = "".join(qa(c) for c in va) + S + "".join(qb(c) for c in vb)
        got = f(_real_msg(va, vb))
        if got != want and "x" not in seen:
            seen.add("x")
            r["violations"].append({"signature": "id-structure|not-characterwise", "detail": f"id({va!r},{vb!r}) = {got!r}, character-wise images give {want!r}",
                                    "witness": {"kind": "homomorphism", "a": va, "b": vb}})
    r["samples"].append({"names_checked": r["decisions"], "examples": [list(x) for x in names[:3]]})
    return r


def replay_homomorphism(w, shard):
    f = _id_fn()
    S, qa, qb = _probe(f)
    want = "".join(qa(c) for c in w["a"]) + S + "".join(qb(c) for c in w["b"])
    got = f(_real_msg(w["a"], w["b"]))
    if got != want:
        raise Violation("id-structure|not-characterwise", f"id({w['a']!r},{w['b']!r}) = {got!r} != {want!r}")


# ---------------------------------------------------------------------------------------------------
# obligation 4 (Engine A): a registration cannot take over the id of a connected engine
# ---------------------------------------------------------------------------------------------------
ENGINES = [("PC1", "UodA"), ("PC2", "UodA"), ("a_b", "c"), ("a", "b_c")]     # the last two share an id on the unchanged tree
AGG_SECRET = "s3cr3t"


def registration_harness(sym):
    import openpectus.aggregator.aggregator_message_handlers as H
    import openpectus.aggregator.models as Mdl
    import openpectus.protocol.engine_messages as EM
    from openpectus.aggregator.aggregator import Aggregator
    from openpectus import __version__
    n = sym.shard.get("n", 2)
    with sym.concrete():
        class FakeDispatcher:
            """Connection bookkeeping of AggregatorDispatcher: engine_id -> channel (here: the (computer, uod) pair)."""
            def __init__(self):
                self.connected = {}

            def has_connected_engine_id(self, engine_id):
                return engine_id in self.connected

            def __getattr__(self, name):                 # set_*_handler(...)
                if name.startswith("set_"):
                    return lambda *a, **k: None
                raise AttributeError(name)

        class FakeFromEngine:
            def __init__(self, data_map):
                self.map = data_map
                self.registered = []

            def register_engine_data(self, engine_data):
                self.map[engine_data.engine_id] = engine_data
                self.registered.append(engine_data.engine_id)

        class NoCache:
            @staticmethod
            def cache_clear():
                pass

        disp = FakeDispatcher()
        agg = Aggregator.__new__(Aggregator)
        agg._engine_data_map = {}
        agg.dispatcher = disp
        agg.secret = AGG_SECRET
        agg.from_engine = FakeFromEngine(agg._engine_data_map)
        handlers = H.AggregatorMessageHandlers(agg)
        orig_cai = H.create_analysis_input
        H.create_analysis_input = NoCache
    try:
        trace = []
        for i in range(n):
            pre = sym.shard.get("engines", [])
            comp, uod = ENGINES[pre[i]] if i < len(pre) else sym.choice(f"engine{i}", ENGINES)
            secret = sym.str(f"secret{i}", len(AGG_SECRET) + 1)
            version = sym.str(f"version{i}", len(__version__) + 1)
            ignore = sym.bool(f"ignore{i}")
            msg = EM.RegisterEngineMsg.model_construct(
                computer_name=comp, uod_name=uod, uod_author_name="n", uod_author_email="e", uod_filename="f", location="l",
                engine_version=version, secret=secret, sequence_number=-2, ignore_version_error=True if ignore else False)
            engine_id = agg.create_engine_id(msg)
            connected_before = disp.has_connected_engine_id(engine_id)
            owner_before = disp.connected.get(engine_id)
            data_before = agg._engine_data_map.get(engine_id)
            coro = handlers.handle_RegisterEngineMsg(msg)
            try:
                coro.send(None)
                coro.close()
                raise RuntimeError("handle_RegisterEngineMsg awaited something: harness needs an event loop")
            except StopIteration as stop:
                reply = stop.value
            ok = bool(reply.success)
            trace.append(f"register{(comp, uod)}->{ok}")
            sym.check(not (connected_before and ok), "register|succeeds-for-connected-id",
                      f"{trace}: registration of {(comp, uod)} succeeded while id {engine_id!r} is connected (owner {owner_before})")
            if connected_before:
                sym.check(agg._engine_data_map.get(engine_id) is data_before and disp.connected.get(engine_id) == owner_before,
                          "register|connected-engine-data-replaced",
                          f"{trace}: data / connection of the connected engine {engine_id!r} changed by a registration")
            # a success must only be granted for a matching secret and (matching version or ignore flag): sanity of the oracle's view
            if ok:
                sym.check(secret == AGG_SECRET, "register|success-with-wrong-secret", f"{trace}: success with secret mismatch")
                sym.check(reply.engine_id == engine_id, "register|reply-id", f"{trace}: reply carries {reply.engine_id!r}")
            # environment events (AggregatorDispatcher._on_delayed_client_connect / on_client_disconnect)
            if ok and sym.bool(f"connect{i}"):
                if engine_id not in disp.connected:
                    disp.connected[engine_id] = (comp, uod)
                    trace.append("connect")
            if sym.bool(f"disconnect{i}") and disp.connected:
                victim = sorted(disp.connected)[0]
                del disp.connected[victim]
                if sym.shard.get("forget_always") or sym.bool(f"forget{i}"):   # handle_EngineDisconnected removes the engine data
                    agg._engine_data_map.pop(victim, None)
                trace.append("disconnect")
        sym.note("trace", trace)
    finally:
        H.create_analysis_input = orig_cai


def _reg_shards(tier):
    k = range(len(ENGINES))
    if tier == "quick":
        return [{"n": 2, "engines": [i, j], "forget_always": True} for i in (0, 2, 3) for j in (0, 2, 3)]
    return [{"n": 3, "engines": [i, j, l], "forget_always": True} for (i, j) in ((0, 0), (0, 2), (2, 2), (2, 3), (3, 2)) for l in (0, 2, 3)]


OBLIGATIONS = [
    Obligation(
        name="image_table", kind="finite", run=run_table, replay=replay_table, decides="table",
        shards=lambda tier: [{"position": "computer_name"}, {"position": "uod_name"}],
        encoded=["openpectus.aggregator.aggregator:Aggregator.create_engine_id"],
        symbolic="none: every non-surrogate Unicode code point (1 112 064) in each of the two name positions",
        bounds={"quick": "all code points, both positions", "thorough": "all code points, both positions"},
        assumptions=["names contain no lone surrogates (create_engine_id raises UnicodeEncodeError on them; JSON/pydantic input cannot carry them)"]),
    Obligation(
        name="homomorphism", kind="z3", run=run_homomorphism, replay=replay_homomorphism, decides="concrete",
        encoded=["openpectus.aggregator.aggregator:Aggregator.create_engine_id"],
        symbolic="name pairs generated by z3 per shape (22 shapes x both positions)",
        bounds={"quick": "3 pairs per shape and position, names up to 40 characters", "thorough": "12 pairs per shape and position"},
        assumptions=["decision per pair is a concrete call of the real create_engine_id with a real RegisterEngineMsg"]),
    Obligation(
        name="id_injective", kind="z3", run=run_injective, replay=replay_injective,
        encoded=["openpectus.aggregator.aggregator:Aggregator.create_engine_id"],
        symbolic="three z3 strings of unbounded length (u, z, v): two different splits of one id string into computer image . separator . uod image",
        bounds={"quick": "all strings", "thorough": "all strings"},
        assumptions=["computer and uod names are non-empty",
                     "id(a,b) = QA(a).S.QB(b) with character-wise prefix codes QA, QB: established by the obligations image_table (all code points) and homomorphism (solver-generated samples)",
                     "the proof query over-approximates the image languages by (identity characters | %XX)*; the witness query is exact (names over characters that are their own image)",
                     "cvc5 is run on the same SMT-LIB text (20 s cap); a definite disagreement makes the query inconclusive"]),
    Obligation(
        name="registration", kind="crosshair", harness=registration_harness, shards=_reg_shards,
        cpu_budget={"quick": 90.0, "thorough": 900.0},
        encoded=["openpectus.aggregator.aggregator_message_handlers:AggregatorMessageHandlers.handle_RegisterEngineMsg",
                 "openpectus.aggregator.aggregator:Aggregator.create_engine_id",
                 "openpectus.aggregator.aggregator:Aggregator.has_registered_engine_id"],
        symbolic="per registration: secret string (<= 7 chars), engine_version string (<= len(__version__)+1 chars), ignore_version_error bit, connect / disconnect / forget event bits",
        bounds={"quick": "2 registrations by engines from a catalogue of 3 name pairs (two of them colliding on the unchanged tree); a disconnect always removes the engine data",
                "thorough": "3 registrations: first two from 5 ordered combinations of the 3 name pairs (same engine twice, unrelated engines, the colliding pair in both orders), third any of the 3; a disconnect always removes the engine data"},
        assumptions=["fake dispatcher: has_connected_engine_id answers from the harness' connection map, maintained like AggregatorDispatcher._engine_id_channel_map",
                     "from_engine.register_engine_data replaced by a recorder that stores the EngineData (no database, no publisher task)",
                     "create_analysis_input.cache_clear stubbed", "RegisterEngineMsg built with model_construct (symbolic secret / version)",
                     "computer / uod names are concrete catalogue entries (urllib.quote is not executed on symbolic text)", "log statements removed at import"]),
]


LEVEL = "model_checking"
MANIFEST = {
    "level": "model_checking",
    "text": "The id format is extracted from the live Aggregator.create_engine_id by probing (separator image, per-code-point images for all 1 112 064 non-surrogate code points in both positions, prefix-code check, character-wise structure on solver-generated names); z3 then decides over strings of unbounded length whether two different non-empty (computer, uod) name pairs can have the same id (ambiguity of the concatenation of the two image languages; unsat of the over-approximated query = injectivity for all names). handle_RegisterEngineMsg is executed symbolically (CrossHair) with a fake dispatcher over sequences of 2 (quick) / 3 (thorough) registrations with symbolic secret / version strings and connect / disconnect events: a registration for a connected id never succeeds and never replaces the connected engine's data.",
    "note": "Trusted: z3 (cross-checked by cvc5), CrossHair's str/bool models; the reduction of id injectivity to concatenation ambiguity relies on the table obligations of the same check. Registration part is bounded (sequence length, catalogue of 3-4 name pairs, recorder instead of the database-backed register_engine_data). Lone surrogates and empty names are outside the claim.",
    "technique": "finite table from the live function + direct z3 string/regex query (unbounded) + symbolic execution of the real handler (CrossHair), witnesses replayed through the real create_engine_id with real RegisterEngineMsg objects",
}
