"""C34  CSV export is a faithful sample-and-hold of the plot log.

Real code: openpectus.aggregator.csv_generator.generate_csv_string / _write_metadata_rows / _write_header_row /
_get_tick_times / _write_data_rows.  `csv.writer` (C) is replaced by a row recorder: the subject is which value is put
into which cell, not the textual formatting.

Solver variables: the tick time of every recorded value (unconstrained reals: interleaved, late start, repeated,
unsorted).  The recorded values themselves are distinct concrete labels -- the generator only copies them -- so a cell
identifies the plot-log value it shows.

Reference (from the statement): data row i belongs to the i-th smallest distinct tick time T of the plot log; the cell
of a tag is empty if the tag has no value with time <= T, otherwise it shows a value of that tag with time t <= T such
that no other value of the tag has a time in (t, T].  (Two values of one tag with the same time: either is accepted.)
"""
from symx.obligation import Obligation
from props.agg_common2 import patched, expect


class _Recorder:
    def __init__(self, rows):
        self.rows = rows

    def writerow(self, row):
        self.rows.append(list(row))


class _FakeCsv:
    """stands in for the `csv` module inside csv_generator"""

    def __init__(self):
        self.rows = []

    def writer(self, *_a, **_k):
        return _Recorder(self.rows)


def harness(sym):
    import datetime
    import openpectus.aggregator.csv_generator as G
    import openpectus.aggregator.routers.dto as Dto
    counts = sym.shard["counts"]
    rel = sym.shard.get("rel")
    times = [[sym.real(f"t{i}_{j}") for j in range(n)] for i, n in enumerate(counts)]
    if rel is not None:
        # shard on the order of the first values of the first two tags that have one
        firsts = [ts[0] for ts in times if ts]
        a, b = firsts[0], firsts[1]
        sym.assume(a < b if rel == "<" else (a == b if rel == "=" else a > b))
    label = lambda i, j: 100 * (i + 1) + j
    with sym.concrete():
        entries = {}
        for i, n in enumerate(counts):
            name = f"Tag{i}"
            entries[name] = Dto.PlotLogEntry.model_construct(
                name=name, value_unit=("L" if i == 0 else None), value_type=Dto.ProcessValueType.INT,
                values=[Dto.PlotLogEntryValue.model_construct(value=label(i, j), tick_time=times[i][j]) for j in range(n)])
        plot_log = Dto.PlotLog.model_construct(entries=entries)
        d = datetime.datetime(2024, 1, 1, 12, 0, 0)
        recent_run = Dto.RecentRun.model_construct(
            engine_id="e1", run_id="r1", started_date=d, completed_date=d, uod_name="uod", uod_filename="uod.py",
            uod_author_name="a", uod_author_email="a@b", engine_computer_name="pc", engine_version="1", engine_hardware_str="hw",
            aggregator_computer_name="agg", aggregator_version="1", contributors=[])
        fake = _FakeCsv()
    shape = f"values per tag {counts}"
    with patched(sym, G, "csv", fake):
        try:
            G.generate_csv_string(plot_log, recent_run)
        except Exception as ex:
            sym.check(False, f"raises|generate_csv_string|{type(ex).__name__}", f"{shape}: generate_csv_string raised {type(ex).__name__}: {ex}")
    rows = fake.rows
    # layout: metadata rows, one empty row, header row, data rows
    sym.check([] in rows, "layout|no-separator", f"{shape}: no empty separator row")
    sep = rows.index([])
    sym.check(len(rows) > sep + 1, "layout|no-header", f"{shape}: header row missing")
    header, data = rows[sep + 1], rows[sep + 2:]
    sym.check(len(header) == len(counts), "header-width", f"{shape}: header has {len(header)} columns")

    # ---- reference ---------------------------------------------------------------------------------
    distinct = []
    for ts in times:
        for t in ts:
            if not any(t == u for u in distinct):
                distinct.append(t)
    distinct.sort()
    sym.check(len(data) == len(distinct), "row-count", f"{shape}: {len(data)} data rows for {len(distinct)} distinct tick times")
    for r, T in enumerate(distinct):
        row = data[r]
        sym.check(len(row) == len(counts), "row-width", f"{shape}: data row {r} has {len(row)} cells")
        for i, ts in enumerate(times):
            cell = row[i]
            has_value = any(t <= T for t in ts)
            if cell is None or cell == "":
                sym.check(not has_value, "cell-empty-but-value-recorded",
                          f"{shape}: row {r}, tag {i}: cell is empty although the tag has a value at or before the row time")
                continue
            js = [j for j in range(len(ts)) if label(i, j) == cell]
            sym.check(len(js) == 1, "cell-foreign-value", f"{shape}: row {r}, tag {i}: cell {cell!r} is not a value of this tag")
            tc = ts[js[0]]
            if not expect(sym, tc <= T, "cell-shows-future-value",
                          f"{shape}: row {r}, tag {i}: the cell shows a value recorded AFTER the row's time"):
                continue
            sym.check(not any(tc < u and u <= T for u in ts), "cell-shows-stale-value",
                      f"{shape}: row {r}, tag {i}: a later value of the tag at or before the row's time exists")
    sym.note("rows", len(distinct))


def _shards(tier):
    import itertools
    out = []
    if tier == "quick":
        tags, per_tag, total = 2, 3, 5
    else:
        tags, per_tag, total = 3, 4, 6
    for counts in itertools.product(range(per_tag + 1), repeat=tags):
        if sum(counts) > total:
            continue
        if sum(counts) >= 5 and sum(1 for c in counts if c) >= 2:
            for rel in ("<", "=", ">"):
                out.append({"counts": list(counts), "rel": rel})
        else:
            out.append({"counts": list(counts)})
    if tier == "quick":
        out += [{"counts": [4]}, {"counts": [4, 1], "rel": "<"}, {"counts": [4, 1], "rel": "="}, {"counts": [4, 1], "rel": ">"}]
    return out


OBLIGATIONS = [Obligation(
    name="sample_and_hold", kind="crosshair", harness=harness, shards=_shards,
    cpu_budget={"quick": 80.0, "thorough": 1500.0},
    encoded=["openpectus.aggregator.csv_generator:generate_csv_string",
             "openpectus.aggregator.csv_generator:_write_metadata_rows",
             "openpectus.aggregator.csv_generator:_write_header_row",
             "openpectus.aggregator.csv_generator:_get_tick_times",
             "openpectus.aggregator.csv_generator:_write_data_rows"],
    symbolic="tick time of every recorded value: unconstrained reals (any interleaving, late start, repeats, unsorted input)",
    bounds={"quick": "2 tags x <=3 values each, <=5 values in total; plus one tag with 4 values alone and beside a tag with 1 value", "thorough": "3 tags x <=4 values each, <=6 values in total"},
    assumptions=["csv.writer replaced by a row recorder (C boundary; formatting is not the subject); None is the empty cell",
                 "DTOs built with model_construct", "floats modelled as reals",
                 "recorded values are distinct concrete labels (the generator copies them without inspecting them)",
                 "two values of one tag with the same time: either may be shown",
                 "log statements removed at import"],
)]

MANIFEST = {
    "level": "model_checking",
    "text": "Bounded exhaustive symbolic execution (CrossHair/z3) of the real csv_generator functions with a row recorder in place of csv.writer: plot logs of 2 tags with up to 3 values each (quick, at most 5 values) / 3 tags with up to 4 values each (thorough, at most 6 values) whose tick times are unconstrained reals, so every relative order (interleaved, late start, repeated, unsorted) is covered; every cell is compared with the sample-and-hold reference.",
    "note": "Trusted: CrossHair's real-valued float model (floats treated as reals), z3, the row recorder. Values are distinct concrete labels (the code only copies them). Textual CSV formatting (C writer) and larger plot logs are outside the claim.",
    "technique": "symbolic execution of the real code (CrossHair + z3) with symbolic real tick times, bounded exhaustive, counterexample replay",
}
