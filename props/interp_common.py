"""Scenario runner + reference structure for the interpreter-level properties (C02, C04, C05, C10, C11,
C12, C14, C15).  A scenario = one method template run on the real engine for N ticks with

  * the input tag In1 following a step trajectory 0 -> 1 -> 0 whose switch ticks are solver variables
    (Watch/Alarm conditions are `In1 > 0`: evaluated by the real _evaluate_condition / compare_values),
  * UOD command durations (iterations) as solver variables,
  * one optional event (user command / cancel / force / injection) at a solver-chosen tick.

The observers only use public observables: Mark tag, Block tag, engine lifetime events, UOD callbacks,
hardware writes, run log, method state.
"""
from __future__ import annotations

from props.engine_common import engine_rig

# ---------------------------------------------------------------------------------------------------
# template catalogue.  Marks have unique names; M* = main flow, W*/A* = watch/alarm bodies, X* = macro body
# ---------------------------------------------------------------------------------------------------
TEMPLATES = {
    "seq": "Mark: M1\nMark: M2\nCmdA\nMark: M3\n",
    "block": "Mark: M1\nBlock: B1\n    Mark: M2\n    End block\n    Mark: M3\nMark: M4\n",
    "nested": "Block: B1\n    Mark: M1\n    Block: B2\n        Mark: M2\n        End block\n    Mark: M3\n    End block\nMark: M4\n",
    "endblocks": "Block: B1\n    Block: B2\n        Mark: M1\n        End blocks\n        Mark: M2\n    Mark: M3\nMark: M4\n",
    "watch": "Mark: M1\nWatch: In1 > 0\n    Mark: W1\n    Mark: W2\nMark: M2\nMark: M3\n",
    "watch_block": "Block: B1\n    Watch: In1 > 0\n        Mark: W1\n        End block\n    Mark: M1\n    Wait: 0.5s\n    Mark: M2\n    End block\nMark: M3\n",
    "alarm": "Alarm: In1 > 0\n    Mark: A1\n    Mark: A2\nMark: M1\nMark: M2\n",
    "alarm_block": "Block: B1\n    Alarm: In1 > 0\n        Mark: A1\n    Mark: M1\n    Wait: 0.4s\n    End block\nMark: M2\n",
    "macro": "Macro: X\n    Mark: X1\n    Mark: X2\nMark: M1\nCall macro: X\nMark: M2\nCall macro: X\nMark: M3\n",
    "wait_cmd": "Mark: M1\nCmdA\nWait: 0.3s\nCmdB\nMark: M2\nCmdC\nMark: M3\n",
    "watch_in_alarm": "Alarm: In1 > 0\n    Mark: A1\n    Watch: In1 > 0\n        Mark: W1\nMark: M1\n",
    "trailing": "Mark: M1\nBlock: B1\n    Mark: M2\n    End block\n\n# comment\n\nMark: M3\n\n",
    "block_in_watch": "Watch: In1 > 0\n    Block: BW\n        Mark: W1\n        End block\n    Mark: W2\nBlock: B1\n    Mark: M1\n    Wait: 0.6s\n    End block\nMark: M2\n",
    "block_in_alarm": "Alarm: In1 > 0\n    Block: BA\n        Mark: A1\n        End block\nMark: M1\nBlock: B1\n    Mark: M2\n    End block\nMark: M3\n",
    # a UOD command line that is invoked again (Alarm body / second macro call) while its earlier instance still runs
    "uod_in_alarm": "Alarm: In1 > 0\n    CmdA\nMark: M1\nWait: 3s\n",
    "uod_in_macro": "Macro: X\n    CmdA\nCall macro: X\nCall macro: X\nMark: M1\nWait: 2s\n",
    # two interrupt flows each starting a block while the main flow's block is active: both must queue for the lock
    "two_watch_blocks": "Watch: In1 > 0\n    Block: WB1\n        Mark: W1\n        End block\nWatch: In1 > 0\n    Block: WB2\n        Mark: W2\n        End block\nBlock: B1\n    Mark: M1\n    Wait: 0.5s\n    End block\nMark: M2\n",
    # a Block between two Marks in a body that is invoked repeatedly (macro called twice, re-arming Alarm)
    "block_in_macro": "Macro: X\n    Mark: X1\n    Block: XB\n        Mark: X2\n        End block\n    Mark: X3\nMark: M1\nCall macro: X\nMark: M2\nCall macro: X\nMark: M3\n",
    "block_between_in_alarm": "Alarm: In1 > 0\n    Mark: A0\n    Block: BA\n        Mark: A1\n        End block\n    Mark: A2\nMark: M1\n",
    # openers whose body is empty or only a comment / blank line: the following lines belong to the enclosing scope
    "empty_openers": "Block: B1\n    Watch: In1 > 0\n    # comment\n    Mark: M1\n    End block\nMark: M2\nWatch: In1 > 0\n\nMark: M3\n",
}


class Line:
    def __init__(self, no, indent, text):
        self.no, self.indent, self.text = no, indent, text
        self.name, _, arg = text.partition(":")
        self.name = self.name.strip()
        self.arg = arg.strip()
        self.children = []
        self.parent = None


def structure(pcode: str):
    """Reference structure by plain indentation (4 spaces per level); independent of the repo's parser."""
    root = Line(-1, -1, "root")
    stack = [root]
    lines = []
    for no, raw in enumerate(pcode.split("\n")):
        if raw.strip() == "" or raw.strip().startswith("#"):
            continue
        ind = (len(raw) - len(raw.lstrip(" "))) // 4
        ln = Line(no, ind, raw.strip())
        while stack[-1].indent >= ind:
            stack.pop()
        ln.parent = stack[-1]
        stack[-1].children.append(ln)
        stack.append(ln)
        lines.append(ln)
    return root, lines


def flow_sequence(container, macros):
    """Effects (Mark names, UOD command names) of one flow in execution order, with macro calls expanded.
    Watch/Alarm/Macro definitions contribute nothing to the enclosing flow. Returns list of (kind, name, blocks)
    where blocks = tuple of enclosing Block names inside this flow (innermost last)."""
    out = []

    def walk(node, blocks):
        for ch in node.children:
            if ch.name == "Mark":
                out.append(("mark", ch.arg, blocks))
            elif ch.name in ("CmdA", "CmdB", "CmdC", "SetOut1"):
                out.append(("uod", ch.name, blocks))
            elif ch.name == "Block":
                out.append(("block", ch.arg, blocks))
                walk(ch, blocks + (ch.arg,))
            elif ch.name == "End block":
                out.append(("endblock", "", blocks))
            elif ch.name == "End blocks":
                out.append(("endblocks", "", blocks))
            elif ch.name == "Call macro":
                m = macros.get(ch.arg)
                if m is not None:
                    walk(m, blocks)
            # Watch / Alarm / Macro: separate flows
    walk(container, ())
    return out


class Scenario:
    """Everything observed in one run."""

    def __init__(self):
        self.marks_by_tick = []      # Mark list after each tick
        self.block_tag = []          # Block tag after each tick
        self.block_events = []       # (tick, "start"/"end", name)
        self.in1 = []                # In1 value seen by the engine in each tick
        self.states = []             # System State after each tick
        self.runlogs = []            # run log snapshot (list of dict) after each tick
        self.method_states = []
        self.events = []             # (tick, description, outcome)
        self.tick_errors = []
        self.uod = None              # rig.rec.uod
        self.writes = None


def snapshot_runlog(rig):
    items = []
    rl = rig.runlog()
    for it in rl.items:
        items.append({"id": it.id, "name": it.name, "state": str(it.state), "start": it.start, "end": it.end,
                      "cancellable": it.cancellable, "forcible": it.forcible, "cancelled": it.cancelled,
                      "forced": it.forced, "failed": it.failed})
    return items


def run_scenario(sym, tname: str, n_ticks: int, *, in1_steps=True, durations_symbolic=True, event_kinds=(),
                 pcode: str | None = None, dt=0.1, collect_runlog=True, on_tick=None, durations=None, event=None,
                 fail_at=None) -> tuple[Scenario, object]:
    """Run one scenario; returns (Scenario, rig is closed).  `event_kinds`: subset of
       {"cancel", "force", "Stop", "Restart", "Pause", "Hold", ...control command names...}: at most one event, at a
       solver-chosen tick, target (for cancel/force) = solver-chosen index into the run log reported at that tick."""
    from openpectus.lang.exec.events import EventListener
    pc = pcode if pcode is not None else TEMPLATES[tname]
    sc = Scenario()
    if durations is not None:
        durations_symbolic = False          # caller supplies them (e.g. to run a baseline with the same values)
    else:
        durations = {}
    if durations_symbolic:
        for name in ("CmdA", "CmdB", "CmdC"):
            if name in pc:
                durations[name] = sym.int(f"dur_{name}", 1, sym.shard.get("dmax", 8 if str(tname).startswith("uod_in") else 3))
    a = b = None
    if "In1" in pc and sym.shard.get("in1") is not None:
        a, b = sym.shard["in1"]                    # concrete trajectory chosen by the shard
    elif "In1" in pc and sym.shard.get("in1_mode") == "up":
        a = sym.int("in1_up", 0, n_ticks)          # In1 becomes 1 at a solver-chosen tick and stays 1
        b = n_ticks + 1
    elif in1_steps and "In1" in pc:
        a = sym.int("in1_up", 0, n_ticks)          # In1 becomes 1 at tick a ...
        b = sym.int("in1_down", 0, n_ticks + 1)    # ... and 0 again at tick b (b <= a: never 1)
    ev_kind = ev_tick = None
    if event is not None:
        ev_kind, ev_tick = event            # caller-supplied (kind, tick); kind may be "none"
        if ev_kind == "none":
            ev_tick = None
    elif event_kinds:
        ev_kind = sym.choice("ev_kind", ["none"] + list(event_kinds))
        if ev_kind != "none":
            ev_tick = sym.int("ev_tick", 1, n_ticks - 1)

    with engine_rig(sym, pc, durations=durations, fail_at=fail_at) as rig:
        e = rig.engine

        class L(EventListener):
            def on_block_start(self, bi):
                sc.block_events.append((e._tick_number, "start", bi.name))

            def on_block_end(self, bi, nbi):
                sc.block_events.append((e._tick_number, "end", bi.name))
        with sym.concrete():
            e.emitter.add_listener(L())
        rig.user("Start")
        for t in range(n_ticks):
            if a is not None:
                v = 1 if (a <= t and t < b) else 0
                rig.engine.uod.hwl.mem["In1"] = v
                sc.in1.append(v)
            if ev_tick is not None and ev_tick == t:
                _do_event(sym, rig, sc, ev_kind, t)
            rig.tick(dt)
            if on_tick is not None:
                on_tick(rig, t)
            sc.marks_by_tick.append(rig.marks())
            sc.block_tag.append(rig.tag("Block"))
            sc.states.append(rig.system_state)
            if collect_runlog:
                try:
                    sc.runlogs.append(snapshot_runlog(rig))
                except Exception as ex:
                    sc.runlogs.append(ex)
            ms = rig.method_state()
            sc.method_states.append({"started": list(ms.started_line_ids), "executed": list(ms.executed_line_ids),
                                     "failed": list(ms.failed_line_ids)})
        sc.tick_errors = list(rig.tick_errors)
        sc.uod = list(rig.rec.uod)
        sc.writes = list(rig.rec.writes)
        sc.command_instances = dict(e.uod.command_instances)
        sc.final_run_id = rig.tag("Run Id")
        sc.rig_method = rig.method
    sym.note("template", tname)
    sym.note("marks", sc.marks_by_tick[-1] if sc.marks_by_tick else [])
    sym.note("event", [ev_kind, sc.events])
    return sc


def _do_event(sym, rig, sc, kind, t):
    if kind in ("cancel", "force"):
        try:
            items = snapshot_runlog(rig)
        except Exception:
            items = []
        k = sym.int("ev_target", 0, 8)
        target = None
        for j in range(min(len(items), 8)):
            if k == j:
                target = items[j]
                break
        if target is None:
            tid, offered = "no-such-instance-id", None
        else:
            tid = target["id"]
            offered = target["cancellable"] if kind == "cancel" else target["forcible"]
        exc = None
        try:
            if kind == "cancel":
                rig.engine.cancel_instruction(tid)
            else:
                rig.engine.force_instruction(tid)
        except Exception as ex:
            exc = ex
        sc.events.append({"tick": t, "kind": kind, "target": dict(target) if target else None, "offered": offered,
                          "raised": type(exc).__name__ if exc else None, "items_before": items})
    else:
        refused = rig.user(kind)
        sc.events.append({"tick": t, "kind": kind, "refused": type(refused).__name__ if refused else None})


# ---------------------------------------------------------------------------------------------------
# trace checker (reference semantics written from the statements of C02 / C04 / C05)
# ---------------------------------------------------------------------------------------------------
def check_trace(sym, sc: Scenario, pcode: str, want: set, forced_ids=(), cancelled_names=()):
    """Checks the observed scenario against the per-flow reference structure.
    `want`: which property's assertions to evaluate: subset of {"C02", "C04", "C05"}."""
    root, lines = structure(pcode)
    macros = {}
    for ln in lines:
        if ln.name == "Macro":
            macros[ln.arg] = ln          # latest definition wins (templates define each macro once before use)
    # ---- observed effects with ticks -----------------------------------------------------------
    mark_tick = []                        # (tick, name) in Mark-tag order
    prev = []
    for t, m in enumerate(sc.marks_by_tick):
        for name in m[len(prev):]:
            mark_tick.append((t, name))
        prev = m
    uod_first = []                        # (tick, name) first exec of each instance
    seen = set()
    for (t, name, iid, ev) in sc.uod:
        if ev == "exec" and iid not in seen:
            seen.add(iid)
            uod_first.append((t, name))
    # block events: engine tick numbers -> scenario tick index (engine tick number == scenario tick index)
    iv = {}          # block name -> list of [start tick, end tick or None] (a block in an Alarm body runs once per invocation)
    stack = []
    block_ancestors = {}
    for ln0 in lines:
        if ln0.name == "Block":
            anc, q0 = [], ln0.parent
            while q0 is not None:
                if q0.name == "Block":
                    anc.append(q0.arg)
                q0 = q0.parent
            block_ancestors[ln0.arg] = anc
    tag0 = "C05" if "C05" in want else ("C02" if "C02" in want else "C04")
    sym.check("Paused" not in sc.states, f"{tag0}|unexpected-method-error", f"System State became Paused at tick {sc.states.index('Paused') if 'Paused' in sc.states else None} although the scenario contains no pause: a method error occurred")
    for (t, kind, name) in sc.block_events:
        if name == "root":
            continue
        if kind == "start":
            if "C05" in want:
                # single nested chain: a block may only start while every active block is one of its ancestors
                sym.check(all(bx in block_ancestors.get(name, []) for bx in stack), "C05|block-started-beside-active-block",
                          f"tick {t}: block {name!r} started while the active chain is {stack} (its enclosing blocks are {block_ancestors.get(name)})")
            stack.append(name)
            iv.setdefault(name, []).append([t, None])
        else:
            if "C05" in want:
                sym.check(len(stack) > 0 and stack[-1] == name, "C05|block-end-not-innermost",
                          f"block end event for {name!r} while active chain is {stack}")
            if name in stack:
                stack.remove(name)
            for rec in iv.get(name, []):
                if rec[1] is None:
                    rec[1] = t
                    break

    def started_by(B, t):
        return any(s0 <= t for s0, _e in iv.get(B, []))

    def live_at(B, t, slack=1):
        return any(s0 <= t and (e0 is None or t <= e0 + slack) for s0, e0 in iv.get(B, []))

    def ended_by(B, t, since=-1):
        return any(e0 is not None and since <= e0 <= t for _s, e0 in iv.get(B, []))

    # ---- C05: Block tag names the innermost active block at the end of every tick ---------------
    if "C05" in want:
        st = []
        ev_by_tick = {}
        for (t, kind, name) in sc.block_events:
            if name != "root":
                ev_by_tick.setdefault(t, []).append((kind, name))
        for t in range(len(sc.block_tag)):
            for kind, name in ev_by_tick.get(t, []):
                if kind == "start":
                    st.append(name)
                elif name in st:
                    st.remove(name)
            want_tag = st[-1] if st else None
            got = sc.block_tag[t]
            sym.check((got or None) == want_tag, "C05|block-tag",
                      f"tick {t}: Block tag {got!r}, innermost active block {want_tag!r} (chain {st})")

    # ---- flows ----------------------------------------------------------------------------------
    flows = [("main", root, None)]
    for ln in lines:
        if ln.name in ("Watch", "Alarm"):
            flows.append((ln.name.lower(), ln, ln))
    names_of = {}
    for kind, cont, ln in flows:
        names_of[id(cont)] = {(k, n) for (k, n, _b) in flow_sequence(cont, macros) if k in ("mark", "uod")}

    def enclosing_blocks(ln):
        out = []
        p = ln.parent if ln is not None else None
        while p is not None and p.parent is not None:
            if p.name == "Block":
                out.append(p.arg)
            p = p.parent
        return out

    for kind, cont, ln in flows:
        S = flow_sequence(cont, macros)
        mine = names_of[id(cont)]
        obs = sorted([(t, "mark", n, i) for i, (t, n) in enumerate(mark_tick) if ("mark", n) in mine] +
                     [(t, "uod", n, 10_000 + i) for i, (t, n) in enumerate(uod_first) if ("uod", n) in mine],
                     key=lambda x: (x[0], x[3]))
        outer_blocks = enclosing_blocks(ln)
        ptr = 0
        runs = 0
        last_run_end_tick = -1
        last_effect_tick = -1
        run_first_tick = None
        for (t, k, n, _i) in obs:
            # find next occurrence of (k, n) in S at or after ptr
            j = ptr
            while j < len(S) and not (S[j][0] == k and S[j][1] == n):
                j += 1
            if j >= len(S):
                # not ahead of us: either a repeat/out-of-order effect, or (alarm / macro re-run) a new invocation
                if kind == "alarm":
                    # previous run must be complete (everything left is legitimately skipped)
                    _check_skips(sym, want, S, ptr, len(S), ended_by, t, f"{kind}:{ln.arg if ln else ''}", last_effect_tick)
                    runs += 1
                    last_run_end_tick = last_effect_tick - 1   # the previous run's last observed effect: it completed no earlier
                    ptr = 0
                    j = 0
                    while j < len(S) and not (S[j][0] == k and S[j][1] == n):
                        j += 1
                    run_first_tick = None
                if j >= len(S):
                    if "C02" in want:
                        sym.check(False, f"C02|repeated-or-out-of-order|flow={kind}",
                                  f"{k} {n!r} at tick {t} is repeated or out of source order in the {kind} flow; trace {mark_tick}")
                    elif "C04" in want and kind == "watch":
                        sym.check(False, "C04|watch-body-ran-again", f"{k} {n!r} of the Watch body at tick {t} is a repeat: a Watch runs once; trace {mark_tick}")
                    break
            _check_skips(sym, want, S, ptr, j, ended_by, t, f"{kind}:{ln.arg if ln else ''}", last_effect_tick)
            blocks = S[j][2]
            if "C05" in want or "C02" in want:
                for B in blocks:
                    ok = started_by(B, t)
                    sym.check(ok, "C02|ran-before-enclosing-block-started" if "C02" in want else "C05|ran-before-enclosing-block-started",
                              f"{k} {n!r} at tick {t} inside block {B!r} whose start/end events are {iv.get(B)}")
                    if ok and "C05" in want:
                        # an instruction whose visit began in the very tick in which another flow ended the block may
                        # still land its effect in the following tick (it had already started): one tick of slack
                        sym.check(live_at(B, t), "C05|ran-after-block-ended", f"{k} {n!r} at tick {t} but its block {B!r} was live only during {iv.get(B)}")
                # everything before j at outer level: blocks that precede and are not enclosing must have ended
                for i2 in range(0, j):
                    # (a block that precedes this instruction at its own level or at an enclosing level: its enclosing blocks
                    #  are a prefix of this instruction's; a block nested in an earlier sibling block is that sibling's business)
                    if S[i2][0] == "block" and S[i2][1] not in blocks and tuple(S[i2][2]) == tuple(blocks[:len(S[i2][2])]):
                        B = S[i2][1]
                        if "C05" in want:
                            sym.check(ended_by(B, t), "C05|successor-started-before-block-ended",
                                      f"{k} {n!r} at tick {t} follows block {B!r} whose start/end events are {iv.get(B)}")
            if "C04" in want and kind in ("watch", "alarm"):
                for B in outer_blocks:
                    if started_by(B, t):
                        sym.check(live_at(B, t), f"C04|{kind}-body-ran-after-block-ended",
                                  f"{kind} body {k} {n!r} at tick {t}, enclosing block {B!r} was live only during {iv.get(B)}")
                if run_first_tick is None:
                    run_first_tick = t
                    # activation needs a tick with the condition true since the previous run ended (or a force)
                    lo = last_run_end_tick + 1 if kind == "alarm" else 0
                    truth = any(sc.in1[x] == 1 for x in range(max(0, lo - 1), min(t + 1, len(sc.in1))))
                    # (a force serves one invocation: for a later invocation of an Alarm it must have been requested after the previous run)
                    forced = any(ev.get("kind") == "force" and ev.get("raised") is None and ev.get("target") is not None
                                 and ev["target"]["name"].startswith(kind.capitalize()) and ev["tick"] >= last_run_end_tick for ev in sc.events)
                    sym.check(truth or forced, f"C04|{kind}-ran-without-condition",
                              f"{kind} body started at tick {t} but In1 was never 1 in ticks {lo}..{t} (In1={sc.in1}) and it was not forced")
                nested_in_alarm = False
                q = ln.parent
                while q is not None:
                    nested_in_alarm = nested_in_alarm or q.name == "Alarm"
                    q = q.parent
                same_text = sum(1 for l2 in lines if l2.name == ln.name and l2.arg == ln.arg)
                if run_first_tick == t and not nested_in_alarm and same_text == 1:
                    # (run-log items are matched to method lines by their text: with two identical Watch lines the cancelled one is not identifiable)
                    # (a Watch inside an Alarm body is a new Watch in every alarm invocation: a cancel applies to one of them)
                    # a run of the body begins in tick t: no cancel request for this Watch/Alarm that was offered as
                    # cancellable and accepted may precede it (requests are made before the tick with the same number runs)
                    for ev in sc.events:
                        if (ev.get("kind") == "cancel" and ev.get("raised") is None and ev.get("offered") and ev.get("target") is not None
                                and ev["target"]["name"] == f"{kind.capitalize()}: {ln.arg}" and ev["tick"] <= t):
                            sym.check(False, f"C04|{kind}-ran-after-cancel|item-state={ev['target']['state']}",
                                      f"{kind} body started at tick {t} after a cancel accepted at tick {ev['tick']} for run-log item {ev['target']}")
            ptr = j + 1
            last_effect_tick = t
        sym.reach()


def _check_skips(sym, want, S, lo, hi, ended_by, t, flow, since=-1):
    """Elements S[lo:hi] were passed over without being observed: legitimate only inside a block that has ended -- and ended
    no earlier than the flow's previous effect (`since`): an end event from an earlier invocation of the same body does not count."""
    if "C02" not in want:
        return
    for i in range(lo, hi):
        k, n, blocks = S[i]
        if k not in ("mark", "uod"):
            continue
        ok = any(ended_by(B, t, since) for B in blocks)
        sym.check(ok, f"C02|skipped-instruction|flow={flow.split(':')[0]}",
                  f"{k} {n!r} of flow {flow} was passed over (a later instruction ran at tick {t}) although no enclosing block had ended")
