"""C11  Command exclusivity and init/finalize pairing.

Real code: the whole engine; subject = CommandManager._execute_uod_command / _cancel_command / _finalize_command /
execute_commands, UodCommand.initialize/execute/cancel/finalize, UnitOperationDefinitionBase.create_command/dispose_command.

Solver variables: durations of the UOD commands (1..6 iterations), iteration at which one command's exec
function fails (or never), tick of one event (Stop / cancel of a solver-chosen run-log item / injection of a
same-name or overlapping command).
Observation: init/exec/finalize callbacks of the instrumented UOD commands with tick numbers.
"""
from symx.obligation import Obligation
from props.interp_common import run_scenario

TEMPLATES = {
    "same_name": "CmdA\nMark: M1\nCmdA\nMark: M2\nCmdA\nWait: 2s\n",
    "overlap": "CmdB\nCmdC\nMark: M1\nCmdB\nWait: 2s\n",
    "mixed": "CmdA\nCmdB\nCmdA\nCmdC\nWait: 2s\n",
    "in_watch": "Watch: In1 > 0\n    CmdB\n    CmdA\nCmdC\nMark: M1\nCmdA\nWait: 2s\n",
    # CmdC is declared in two overlap lists: requesting it must cancel both CmdA and CmdB
    "two_lists": "CmdA\nCmdB\nMark: M1\nCmdC\nWait: 2s\n",
}
OVERLAP_LISTS = {"two_lists": [["CmdB", "CmdC"], ["CmdA", "CmdC"]]}
N = 16
INJECT = {"injA": "CmdA", "injB": "CmdB", "injC": "CmdC"}


def harness(sym):
    t = sym.shard["template"]
    pc = TEMPLATES[t]
    ev = sym.shard["event"]
    durations = {n: sym.int(f"dur_{n}", 1, sym.shard.get("dmax", 3)) for n in ("CmdA", "CmdB", "CmdC") if n in pc}
    fail_at = {}
    if sym.shard.get("fail"):
        fail_at = {sym.shard["fail"]: sym.int("fail_iter", 0, 3)}
    te = sym.int("ev_tick", 1, N - 4) if ev != "none" else None
    sym.shard["in1"] = [2, 99]

    def on_tick(rig, i):
        pass

    if ev in INJECT:
        # injection is done through the scenario runner's event hook
        kinds = (ev,)
    overlaps = OVERLAP_LISTS.get(t, [["CmdB", "CmdC"]])
    OVERLAPS = [set(x) for x in overlaps]
    sc = _run(sym, t, pc, durations, fail_at, ev, te, overlaps)
    # ---- monitor over the callback log -------------------------------------------------------------
    by_inst = {}
    for (tt, name, iid, kind) in sc.uod:
        by_inst.setdefault(iid, {"name": name, "events": []})["events"].append((tt, kind))
    for iid, rec in by_inst.items():
        evs = [k for (_t, k) in rec["events"]]
        sym.check(evs.count("init") == 1 and evs[0] == "init", f"init-not-once-first|cmd={rec['name']}",
                  f"{t}/{ev}: instance of {rec['name']}: {rec['events']}")
        sym.check(evs.count("final") <= 1, f"finalized-twice|cmd={rec['name']}", f"{t}/{ev}: {rec['events']}")
        if "final" in evs:
            sym.check(evs[-1] == "final", f"executed-after-finalize|cmd={rec['name']}", f"{t}/{ev}: {rec['events']}")
    # exclusivity: walk the callback log in call order; an instance is live from init to finalize.  While an instance
    # is live no other instance of the same command or of an overlapping command may be initialised or executed
    # (an older instance that was finalized earlier in the same tick is not live any more).
    live = {}
    for (tt, name, iid, kind) in sc.uod:
        if kind == "final":
            live.pop(iid, None)
            continue
        for other_iid, other_name in live.items():
            if other_iid == iid:
                continue
            sym.check(other_name != name, f"two-instances-same-command|cmd={name}",
                      f"{t}/{ev}: tick {tt}: {kind} of {name} while another instance of it is live; log {sc.uod}")
            for ov in OVERLAPS:
                sym.check(not (name in ov and other_name in ov), "overlapping-commands-live-together",
                          f"{t}/{ev}: tick {tt}: {kind} of {name} while {other_name} is live; log {sc.uod}")
        if kind == "init":
            live[iid] = name
    # "requesting such a command first cancels the older one": the newer of two conflicting requests is the one that runs.
    # Judged when nothing else interferes: no failing command, no Stop / cancel event, no still newer conflicting request,
    # not within the last ticks before the final Stop.
    if not fail_at and ev not in ("Stop", "cancel"):
        reqs = sc.requests
        inited = {iid for (_t, _n, iid, k) in sc.uod if k == "init"}

        def conflict(a, b):
            return a == b or any(a in ov and b in ov for ov in OVERLAPS)
        for j in range(1, len(reqs)):
            tj, nj, ij = reqs[j]
            older = [r for r in reqs[:j] if conflict(r[1], nj) and r[2] in inited or (conflict(r[1], nj) and r[0] == tj)]
            newer = [r for r in reqs[j + 1:] if conflict(r[1], nj) and r[0] <= tj + 2]
            if older and not newer and tj < N - 7:
                sym.check(ij in inited, f"newer-conflicting-request-did-not-run|cmd={nj}",
                          lambda: f"{t}/{ev}: request {j} ({nj}, tick {tj}) conflicts with the older {[(r[1], r[0]) for r in older]} but was never initialised; requests {[(r[0], r[1]) for r in reqs]}; callbacks {[(x[0], x[1], x[3]) for x in sc.uod]}")
    # every instance is finalized exactly once by the end (the run is stopped at the end of every scenario)
    for iid, rec in by_inst.items():
        evs = [k for (_t, k) in rec["events"]]
        sym.check(evs.count("final") == 1, f"not-finalized|cmd={rec['name']}|event={ev if ev in ('Stop', 'cancel') else 'other'}",
                  f"{t}/{ev}: instance of {rec['name']} never finalized: {rec['events']} (errors {sc.tick_errors[:1]})")
    sym.check(len(sc.command_instances) == 0, "instance-left-after-stop", f"{t}/{ev}: {list(sc.command_instances)}")


def _run(sym, t, pc, durations, fail_at, ev, te, overlaps=None):
    """Scenario with the event, followed by a final Stop + 3 ticks so that every started command must be finalized."""
    from props.interp_common import Scenario, snapshot_runlog
    from props.engine_common import engine_rig
    sc = Scenario()
    with engine_rig(sym, pc, durations=durations, fail_at=fail_at, overlaps=overlaps) as rig:
        e = rig.engine
        sc.requests = []                       # (tick index, command name, instance id) in request order (observer only)
        import openpectus.engine.command_manager as CM
        orig_schedule = CM.CommandManager.schedule

        def schedule(cm, req):
            if req.name in ("CmdA", "CmdB", "CmdC"):
                sc.requests.append((rig.ticks, req.name, req.instance_id))
            return orig_schedule(cm, req)
        CM.CommandManager.schedule = schedule
        sc._restore = lambda: setattr(CM.CommandManager, "schedule", orig_schedule)
        rig.user("Start")
        for i in range(N):
            e.uod.hwl.mem["In1"] = 1 if i >= 2 else 0
            if te is not None and te == i:
                if ev == "Stop":
                    rig.user("Stop")
                elif ev == "cancel":
                    items = snapshot_runlog(rig)
                    k = sym.int("ev_target", 0, 7)
                    for j in range(min(len(items), 8)):
                        if k == j:
                            try:
                                e.cancel_instruction(items[j]["id"])
                            except Exception:
                                pass
                            break
                elif ev in INJECT:
                    try:
                        e.inject_code(INJECT[ev])
                    except Exception:
                        pass
            if i == N - 4:
                rig.user("Stop")       # refused if already stopped
            if i == N - 5 and rig.system_state == "Paused":
                rig.user("Stop")
            rig.tick(0.1)
        sc.uod = list(rig.rec.uod)
        sc.tick_errors = list(rig.tick_errors)
        sc.command_instances = dict(e.uod.command_instances)
        sc._restore()
    return sc


def _shards(tier):
    out = []
    dmax = 3 if tier == "quick" else 6
    for t in TEMPLATES:
        for ev in ("none", "Stop", "cancel", "injA", "injB", "injC"):
            out.append({"template": t, "event": ev, "dmax": dmax})
        for f in ("CmdA", "CmdB"):
            out.append({"template": t, "event": "none", "fail": f, "dmax": dmax})
    return out


OBLIGATIONS = [Obligation(
    name="exclusivity_pairing", kind="crosshair", harness=harness, shards=_shards,
    cpu_budget={"quick": 400.0, "thorough": 1800.0},
    encoded=["openpectus.engine.command_manager:CommandManager._execute_uod_command", "openpectus.engine.command_manager:CommandManager._cancel_command",
             "openpectus.engine.command_manager:CommandManager._finalize_command", "openpectus.engine.command_manager:CommandManager.execute_commands",
             "openpectus.engine.command_manager:CommandManager.cancel_commands", "openpectus.lang.exec.uod:UodCommand.finalize",
             "openpectus.lang.exec.uod:UodCommand.execute"],
    symbolic="durations of CmdA/CmdB/CmdC (1..6 iterations), failing iteration of one command (0..3), tick of the event (1..12), targeted run-log item for cancel",
    bounds={"quick": "durations 1..3; 5 templates (same-name re-issue, overlapping pair, mixed, commands in a Watch, a command in two overlap lists) x {no event, Stop, cancel, injection of CmdA/CmdB/CmdC, failing exec of CmdA/CmdB}, 16 ticks, final Stop",
            "thorough": "same with durations 1..6"},
    assumptions=["overlap list {CmdB, CmdC}; template two_lists also declares {CmdA, CmdC}", "one event per run, issued between ticks", "every scenario ends with a Stop so 'finalized exactly once' is checkable",
                 "fake hardware; log statements removed at import"],
)]

MANIFEST = {
    "level": "model_checking",
    "text": "Bounded exhaustive symbolic execution (CrossHair/z3) of the real command manager through the real engine: same-name and overlapping UOD commands with solver-chosen durations, failing iterations, cancel/stop/injection ticks; init/exec/finalize callbacks checked for exclusivity per tick and exact pairing.",
    "note": "Trusted: CrossHair/z3; four templates, one event per run, 16 ticks.",
    "technique": "symbolic execution of the real engine (CrossHair + z3), bounded exhaustive over durations/fault iteration/event tick, callback-log monitor, counterexample replay",
}
