#!/bin/bash
# Builds /verif/.venv: an overlay on /venv (repo deps) + /repo on sys.path + crosshair/z3/cvc5 from the offline wheelhouse.
set -e
HERE="$(cd "$(dirname "${BASH_SOURCE[0]}")" && pwd)"
cd "$HERE"
if [ -x .venv/bin/python ] && .venv/bin/python -c "import crosshair, z3, openpectus" >/dev/null 2>&1; then
  echo "venv ok"; exit 0
fi
rm -rf .venv
/venv/bin/python -m venv .venv
SP=$(.venv/bin/python -c "import sysconfig; print(sysconfig.get_paths()['purelib'])")
printf '%s\n%s\n' "/venv/lib/python3.12/site-packages" "/repo" > "$SP/_overlay.pth"
PIP_NO_INDEX=1 .venv/bin/pip install --no-index --find-links /opt/veriftools/wheels crosshair-tool z3-solver cvc5 >/dev/null
.venv/bin/python -c "import crosshair, z3, openpectus; print('venv built')"
