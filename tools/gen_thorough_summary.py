#!/usr/bin/env python3
"""Writes Appendix B of DESIGN.md: the last completed thorough run of every property, taken from the queue logs
(.scratch/thorough*.log, written by tools/run_tier.sh; those logs are scratch, this table is the record)."""
import glob, os, re
HERE = os.path.dirname(os.path.dirname(os.path.abspath(__file__)))
rows = {}
for f in sorted(glob.glob(os.path.join(HERE, ".scratch", "thorough*.log")), key=lambda p: int(re.findall(r"thorough(\d+)", p)[0])):
    for line in open(f):
        m = re.match(r"(C\d\d) thorough rc=(\d+) wall=(\d+)s \[C\d\d thorough\] paths=(\d+) reached=(\d+) queries=(\d+) rows=(\d+) solver_s=([\d.]+) wall=[\d.]+s known=(\d+) new=(\d+) spurious=(\d+) inconclusive=(\d+)", line)
        if m:
            rows[m.group(1)] = m.groups()
out = ["| property | exit | wall s | paths | reached | z3 queries | table rows | solver s | known findings hit | new violations | inconclusive |", "|---|---|---|---|---|---|---|---|---|---|---|"]
for pid in sorted(rows):
    p, rc, wall, paths, reached, q, r, ss, known, new, spur, inc = rows[pid]
    out.append(f"| {pid} | {rc} | {wall} | {paths} | {reached} | {q} | {r} | {ss} | {known} | {new} | {inc} |")
path = os.path.join(HERE, "DESIGN.md")
s = open(path).read()
a, b = "<!-- APPENDIX-B-BEGIN -->", "<!-- APPENDIX-B-END -->"
if a not in s:
    s += ("\n\n## Appendix B — last completed thorough run per property (generated)\n\n"
          "Every thorough command was run end to end on the final tree (several more than once while the checks were being strengthened; "
          "runs that ended with a new violation led either to a `fix:` commit, a recorded finding or a corrected oracle and were repeated). "
          "Wall times are from a 16-core machine that was partly shared with other jobs.\n\n" + a + "\n" + b + "\n")
s = s[:s.index(a) + len(a)] + "\n" + "\n".join(out) + "\n" + s[s.index(b):]
open(path, "w").write(s)
print("appendix B:", len(rows), "properties")
