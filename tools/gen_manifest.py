#!/usr/bin/env python3
"""Regenerates /verif/MANIFEST.json from the metadata in props/Cxx.py and tools/not_applicable.json."""
import importlib, json, os, sys
HERE = os.path.dirname(os.path.dirname(os.path.abspath(__file__)))
sys.path.insert(0, HERE)
ids = [json.loads(l)["id"] for l in open(os.path.join(HERE, "properties.jsonl"))]
na = json.load(open(os.path.join(HERE, "tools", "not_applicable.json")))
checks, not_app = [], []
for pid in ids:
    path = os.path.join(HERE, "props", f"{pid}.py")
    if pid in na or not os.path.exists(path):
        not_app.append({"property_id": pid, "reason": na.get(pid, "no solver-based check built yet for this property (work in progress)")})
        continue
    src = open(path).read()
    meta = {}
    # metadata lives in a MANIFEST dict literal at module top level; evaluate only that assignment
    import ast
    tree = ast.parse(src)
    for node in tree.body:
        if isinstance(node, ast.Assign) and getattr(node.targets[0], "id", "") == "MANIFEST":
            meta = ast.literal_eval(node.value)
    if not meta:
        not_app.append({"property_id": pid, "reason": "check module present but not registered (no MANIFEST metadata)"})
        continue
    checks.append({
        "property_id": pid,
        "quick_cmd": f"./check {pid} quick",
        "thorough_cmd": f"./check {pid} thorough",
        "evidence_file": f"/verif/evidence/{pid}.json",
        "replay_cmd_template": "PYTHONPATH=/verif /verif/.venv/bin/python -m symx.driver --replay {path}",
        "engine": "symx",
        "level_claimed": {"category": meta.get("level", "model_checking"), "text": meta["text"], "design_ref": meta.get("design_ref", f"DESIGN.md §4 {pid}")},
        "level_note": meta["note"],
        "technique": meta["technique"],
    })
man = {
    "version": 1,
    "setup_cmd": "bash /verif/setup.sh",
    "hooks": {"guard": "OPEN_PECTUS_VERIF", "enable": "none needed: the checks import /repo's modules unmodified through an overlay venv; the only source transform (removal of logging statements under symbolic execution) is applied at import time by /verif/symx/loader.py, not in /repo",
              "baseline_off_cmd": "cd /repo && /venv/bin/python -m pytest -ra -q -p no:cacheprovider --timeout=900 --continue-on-collection-errors",
              "source_commits": [], "add_only": True},
    "engines": [{"name": "symx", "path": "/verif/symx", "serves_properties": [c["property_id"] for c in checks],
                 "kind_free_text": "symbolic execution of the real Python code with CrossHair 0.0.110 / z3 5.1 driven as a library (own path-exploration loop), plus direct z3 queries over encodings extracted from live repo objects; counterexamples replayed on the unmodified code"}],
    "checks": checks,
    "not_applicable": not_app,
    "notes": "All checks: `./check <id> <tier>`; evidence rewritten on every run; known findings in /verif/known_findings.json; bounds and stubs are listed per obligation in the evidence file and in DESIGN.md.",
}
json.dump(man, open(os.path.join(HERE, "MANIFEST.json"), "w"), indent=1)
print(f"{len(checks)} checks, {len(not_app)} not applicable")
