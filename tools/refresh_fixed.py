#!/usr/bin/env python3
"""Rewrites the 'fixed' entries of known_findings.json from tools/fixed_table.json with the current commit hashes of /repo."""
import json, subprocess
d = json.load(open('/verif/known_findings.json'))
table = json.load(open('/verif/tools/fixed_table.json'))
log = subprocess.run(["git", "-C", "/repo", "log", "--format=%h %s"], capture_output=True, text=True).stdout.splitlines()
out = []
for t in table:
    hit = [l.split()[0] for l in log if l.split(" ", 1)[1].startswith(t["subject_prefix"])]
    assert len(hit) == 1, (t["subject_prefix"], hit)
    out.append(f"fixed: property={t['property']} {hit[0]} {t['what']}")
d["fixed"] = out
json.dump(d, open('/verif/known_findings.json', 'w'), indent=1, ensure_ascii=False)
print(len(out), "fixed entries refreshed")
