#!/bin/bash
# usage: tools/eval_mutant.sh <Cxx> <dir with patch.diff + demo*.py + meta.json> [tier]
# Verifies a seeded change in a scratch worktree and runs the property's check against it.
set -u
ID=$1; SRC=$2; TIER=${3:-quick}
WT=/tmp/mutv/$ID
mkdir -p /tmp/mutv
git -C /repo worktree remove --force $WT >/dev/null 2>&1
git -C /repo worktree add -q --detach $WT HEAD || exit 2
DEMO=$(ls $SRC/demo*.py | head -1)
run_demo() { (cd $WT && PYTHONPATH=$WT timeout 600 /venv/bin/python -m pytest -q -p no:cacheprovider -x "$DEMO" >/tmp/mutv/$ID.demo.log 2>&1); echo $?; }
case "$DEMO" in *demo.py) run_demo() { (cd $WT && PYTHONPATH=$WT timeout 600 /venv/bin/python "$DEMO" >/tmp/mutv/$ID.demo.log 2>&1); echo $?; };; esac
CLEAN=$(run_demo)
git -C $WT apply $SRC/patch.diff || { echo "PATCH DOES NOT APPLY"; exit 2; }
MUT=$(run_demo)
echo "demo: clean rc=$CLEAN  mutated rc=$MUT"
cd /verif
PYTHONPATH=$WT ./check $ID $TIER > /tmp/mutv/$ID.check.log 2>&1
RC=$?
echo "check $ID $TIER against mutant: rc=$RC"
grep -E "^VIOLATION|signature=|^\[|^INCONCLUSIVE|^HARNESS|^VACUOUS" /tmp/mutv/$ID.check.log | cut -c1-400 | head -12
git -C /repo worktree remove --force $WT
