#!/bin/bash
# Runs the repository's stable baseline (guard off: there are no hooks) and compares with /root/.vp/BASELINE.json
OUT=${1:-/verif/.scratch/baseline.junit.xml}
cd /repo && /venv/bin/python -m pytest -ra -q -p no:cacheprovider --timeout=900 --continue-on-collection-errors --junitxml=$OUT > ${OUT%.xml}.log 2>&1
python3 - "$OUT" <<'PY'
import json, sys, xml.etree.ElementTree as ET
base = json.load(open('/root/.vp/BASELINE.json'))
stable = set(base['stable_pass'])
res = {}
for tc in ET.parse(sys.argv[1]).getroot().iter('testcase'):
    name = f"{tc.get('classname')}::{tc.get('name')}"
    bad = any(ch.tag in ('failure', 'error') for ch in tc)
    skipped = any(ch.tag == 'skipped' for ch in tc)
    res[name] = 'fail' if bad else ('skip' if skipped else 'pass')
missing = sorted(n for n in stable if res.get(n) != 'pass')
print(f"stable={len(stable)} passing_now={sum(1 for n in stable if res.get(n)=='pass')} not_passing={len(missing)}")
for n in missing: print("  NOT PASSING:", n, res.get(n))
PY
