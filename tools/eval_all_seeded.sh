#!/bin/bash
# Re-evaluates every kept seeded change against the current checks: tools/eval_all_seeded.sh [tier]  -> seeded/RESULTS.txt
cd /verif
TIER=${1:-quick}
OUT=${SEEDED_OUT:-/verif/seeded/RESULTS.txt}
: > $OUT.tmp
LIST=${SEEDED_LIST:-$(ls -d seeded/C*/ | xargs -n1 basename)}
for name in $LIST; do
  d=seeded/$name
  id=${name:0:3}
  log=/verif/.scratch/seeded_$name.log
  tools/eval_mutant.sh $id /verif/seeded/$name $TIER > $log 2>&1
  demo=$(grep -m1 '^demo:' $log)
  rc=$(grep -m1 "^check $id" $log | sed 's/.*rc=//')
  sig=$(grep -m1 'signature=' $log | sed 's/^ *signature=//; s/ detail=.*//')
  echo "$name tier=$TIER $demo | check rc=$rc | first signature: ${sig:-none}" >> $OUT.tmp
done
mv $OUT.tmp $OUT
cat $OUT
