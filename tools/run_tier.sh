#!/bin/bash
# usage: tools/run_tier.sh <tier> <log> <ids...>   -- runs the checks sequentially, one summary line each
TIER=$1; LOG=$2; shift 2
cd /verif
for p in "$@"; do
  s=$(date +%s)
  timeout 3600 ./check $p $TIER > /verif/.scratch/tier_$p.$TIER.log 2>&1; rc=$?
  e=$(date +%s)
  echo "$p $TIER rc=$rc wall=$((e-s))s $(grep -E '^\[' /verif/.scratch/tier_$p.$TIER.log | tail -1) $(grep -cE '^VIOLATION' /verif/.scratch/tier_$p.$TIER.log) new $(grep -cE '^INCONCLUSIVE' /verif/.scratch/tier_$p.$TIER.log) inconclusive" >> $LOG
done
