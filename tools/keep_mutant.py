#!/usr/bin/env python3
"""usage: keep_mutant.py <Cxx> <src dir> <caught:yes|no|after-strengthening> "<which signatures / note>" [<dir name, e.g. C02b>]
Copies a verified seeded change into /verif/seeded/<Cxx>/ (or the given dir name: a second change for the same property)
and records what was run."""
import json, os, shutil, sys, glob, subprocess
pid, src, caught, note = sys.argv[1:5]
dst = f"/verif/seeded/{sys.argv[5] if len(sys.argv) > 5 else pid}"
os.makedirs(dst, exist_ok=True)
shutil.copy(os.path.join(src, "patch.diff"), dst)
for f in glob.glob(os.path.join(src, "demo*.py")):
    shutil.copy(f, dst)
meta = {}
mp = os.path.join(src, "meta.json")
if os.path.exists(mp):
    try:
        meta = json.load(open(mp))
    except Exception:
        meta = {"raw": open(mp).read()[:2000]}
meta["property"] = pid
log = f"/tmp/mutv/{pid}.check.log"
demo = f"/tmp/mutv/{pid}.demo.log"
meta["verified_by_me"] = {
    "how": "tools/eval_mutant.sh: fresh scratch worktree of /repo HEAD; demonstration run without the patch (must pass) and with the patch (must fail); "
           "then `PYTHONPATH=<worktree> ./check %s quick` (the overlay puts the patched tree before /repo on sys.path)" % pid,
    "base_commit": subprocess.run(["git", "-C", "/repo", "rev-parse", "--short", "HEAD"], capture_output=True, text=True).stdout.strip(),
    "check_detects": caught, "note": note,
    "check_output": [l.rstrip()[:300] for l in open(log) if l.startswith(("VIOLATION", "  signature", "[", "INCONCLUSIVE", "KNOWN"))][:10] if os.path.exists(log) else [],
}
json.dump(meta, open(os.path.join(dst, "meta.json"), "w"), indent=1)
print("kept", dst)
