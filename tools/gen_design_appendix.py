#!/usr/bin/env python3
"""Regenerates Appendix A of DESIGN.md (between the APPENDIX-A markers) from the metadata in props/Cxx.py and the
last evidence files.  Run with /verif/.venv/bin/python (imports the props modules)."""
import importlib
import json
import os
import sys

HERE = os.path.dirname(os.path.dirname(os.path.abspath(__file__)))
sys.path.insert(0, HERE)
props = {json.loads(l)["id"]: json.loads(l) for l in open(os.path.join(HERE, "properties.jsonl"))}
known = json.load(open(os.path.join(HERE, "known_findings.json")))
out = []
for pid in sorted(props):
    try:
        mod = importlib.import_module(f"props.{pid}")
    except Exception as e:  # noqa
        out.append(f"### {pid} — {props[pid]['title']}\n\n(module not importable here: {e})\n")
        continue
    man = getattr(mod, "MANIFEST", {})
    out.append(f"### {pid} — {props[pid]['title']}\n")
    out.append(f"*Level:* {man.get('level', '?')}. *Technique:* {man.get('technique', '?')}\n")
    ev = None
    p = os.path.join(HERE, "evidence", f"{pid}.json")
    if os.path.exists(p):
        ev = json.load(open(p))
    for o in mod.OBLIGATIONS:
        out.append(f"* **{o.name}** ({'CrossHair path exploration' if o.kind == 'crosshair' else o.kind}; decided by: {o.decides})")
        if o.symbolic:
            out.append(f"  * solver variables: {o.symbolic}")
        if o.encoded:
            out.append(f"  * real code: {', '.join(q.split(':')[-1] for q in o.encoded[:8])}{' …' if len(o.encoded) > 8 else ''}")
        for tier in ("quick", "thorough"):
            if o.bounds.get(tier):
                out.append(f"  * bound ({tier}): {o.bounds[tier]}")
        if o.assumptions:
            out.append("  * stubs / assumptions: " + "; ".join(o.assumptions))
    if ev:
        c = ev["coverage"]
        out.append(f"* last {ev['tier']} run: {c.get('evaluations')} evaluations, {c.get('queries_discharged')} solver queries, "
                   f"solver {c.get('solver_time_s')} s, wall {ev.get('wall_s')} s, exhaustive={c.get('exhaustive')}, "
                   f"known findings hit: {len(c.get('known_findings_hit', []))}")
    kf = [f for f in known["findings"] if f["property"] == pid]
    fx = [f for f in known["fixed"] if f"property={pid} " in f]
    for f in fx:
        out.append(f"* {f}")
    for f in kf:
        out.append(f"* known finding `{f['signature']}`: {f['description']}")
    out.append("")
text = "\n".join(out)
path = os.path.join(HERE, "DESIGN.md")
s = open(path).read()
a, b = "<!-- APPENDIX-A-BEGIN -->", "<!-- APPENDIX-A-END -->"
assert a in s and b in s
s = s[:s.index(a) + len(a)] + "\n" + text + "\n" + s[s.index(b):]
open(path, "w").write(s)
print("appendix regenerated:", len(out), "lines")
