#!/usr/bin/env python3
"""Regenerates Appendix A of DESIGN.md (between the APPENDIX-A markers) from the metadata in props/Cxx.py and the
last evidence files.  Run with /verif/.venv/bin/python (imports the props modules)."""
import importlib
import json
import os
import sys

HERE = os.path.dirname(os.path.dirname(os.path.abspath(__file__)))
sys.path.insert(0, HERE)
props = {json.loads(l)["id"]: json.loads(l) for l in open(os.path.join(HERE, "properties.jsonl"))}
known = json.load(open(os.path.join(HERE, "known_findings.json")))
out = []
for pid in sorted(props):
    try:
        mod = importlib.import_module(f"props.{pid}")
    except Exception as e:  # noqa
        out.append(f"### {pid} — {props[pid]['title']}\n\n(module not importable here: {e})\n")
        continue
    man = getattr(mod, "MANIFEST", {})
    out.append(f"### {pid} — {props[pid]['title']}\n")
    out.append(f"*Level:* {man.get('level', '?')}. *Technique:* {man.get('technique', '?')}\n")
    ev = None
    p = os.path.join(HERE, "evidence", f"{pid}.json")
    if os.path.exists(p):
        ev = json.load(open(p))
    for o in mod.OBLIGATIONS:
        out.append(f"* **{o.name}** ({'CrossHair path exploration' if o.kind == 'crosshair' else o.kind}; decided by: {o.decides})")
        if o.symbolic:
            out.append(f"  * solver variables: {o.symbolic}")
        if o.encoded:
            out.append(f"  * real code: {', '.join(q.split(':')[-1] for q in o.encoded[:8])}{' …' if len(o.encoded) > 8 else ''}")
        for tier in ("quick", "thorough"):
            if o.bounds.get(tier):
                out.append(f"  * bound ({tier}): {o.bounds[tier]}")
        if o.assumptions:
            out.append("  * stubs / assumptions: " + "; ".join(o.assumptions))
    if ev:
        c = ev["coverage"]
        out.append(f"* last {ev['tier']} run: {c.get('evaluations')} evaluations, {c.get('queries_discharged')} solver queries, "
                   f"solver {c.get('solver_time_s')} s, wall {ev.get('wall_s')} s, exhaustive={c.get('exhaustive')}, "
                   f"known findings hit: {len(c.get('known_findings_hit', []))}")
    kf = [f for f in known["findings"] if f["property"] == pid]
    fx = [f for f in known["fixed"] if f"property={pid} " in f]
    for f in fx:
        out.append(f"* {f}")
    for f in kf:
        out.append(f"* known finding `{f['signature']}`: {f['description']}")
    out.append("")
text = "\n".join(out)
path = os.path.join(HERE, "DESIGN.md")
s = open(path).read()
a, b = "<!-- APPENDIX-A-BEGIN -->", "<!-- APPENDIX-A-END -->"
assert a in s and b in s
s = s[:s.index(a) + len(a)] + "\n" + text + "\n" + s[s.index(b):]
open(path, "w").write(s)
print("appendix regenerated:", len(out), "lines")

# ---- section 6: seeded changes (from seeded/<id>/meta.json) ----
rows = ["| property | change (one line) | what it needs to manifest | caught | how / what had to be strengthened |", "|---|---|---|---|---|"]
sd = os.path.join(HERE, "seeded")
n = {"yes": 0, "after-strengthening": 0, "no": 0}
for pid in sorted(os.listdir(sd)) if os.path.isdir(sd) else []:
    mp = os.path.join(sd, pid, "meta.json")
    if not os.path.exists(mp):
        continue
    m = json.load(open(mp))
    v = m.get("verified_by_me", {})
    det = v.get("check_detects", "?")
    n[det] = n.get(det, 0) + 1
    cell = lambda t: " ".join(str(t).split()).replace("|", "\\|")     # noqa: E731
    short = lambda t, k: (cell(t)[:k] + "…") if len(cell(t)) > k else cell(t)    # noqa: E731
    rows.append(f"| {pid} | {short(m.get('summary', ''), 260)} | {short(m.get('needs_to_manifest', ''), 220)} | "
                f"{'directly' if det == 'yes' else det} | {short(v.get('note', ''), 400)} |")
head = (f"{sum(n.values())} seeded changes are kept under `seeded/<id>/` (patch.diff, demonstration, meta.json with the author's notes and my "
        f"verification record): {n.get('yes', 0)} were caught by the check as it stood, {n.get('after-strengthening', 0)} only after the check was "
        f"strengthened (the strengthening is described in the last column and is part of the committed check), {n.get('no', 0)} are not caught.\n")
s = open(path).read()
a, b = "<!-- SEEDED-BEGIN -->", "<!-- SEEDED-END -->"
assert a in s and b in s
s = s[:s.index(a) + len(a)] + "\n" + head + "\n" + "\n".join(rows) + "\n" + s[s.index(b):]
open(path, "w").write(s)
print("seeded table regenerated:", len(rows) - 2, "rows")
