"""Import-time transform for `openpectus.*` when it is executed under CrossHair.

Only one rewrite is applied to the repo's source (no repo edits are needed for it):

  logger.<level>(...)  /  frontend_logger.<level>(...)   as an expression statement   ->   pass
  <obj>.tracer.trace(...)  (debug trace helper, logging only)              ->   pass

Reason: every f-string on an object goes through CrossHair's `deep_realize`, which copies object
graphs and concretises symbolic values (engine.py logs f"{increment_time=}").  This is the cut
"logging gets an empty body"; crashes inside log formatting are therefore outside the symbolic
claims.  Replays run WITHOUT this transform, on the unmodified modules.

`install()` must be called before the first `import openpectus...`.
"""
from __future__ import annotations

import ast
import importlib.abc
import importlib.machinery
import sys

_LOGGER_NAMES = {"logger", "frontend_logger", "log"}
_LEVELS = {"debug", "info", "warning", "error", "critical", "exception", "log", "warn"}
_extra_transforms = []   # callables (modname, tree) -> tree
stats = {"modules": 0, "stripped": 0}


class _Strip(ast.NodeTransformer):
    def visit_Expr(self, node: ast.Expr):
        v = node.value
        if (isinstance(v, ast.Call) and isinstance(v.func, ast.Attribute) and v.func.attr in _LEVELS
                and isinstance(v.func.value, ast.Name) and v.func.value.id in _LOGGER_NAMES):
            stats["stripped"] += 1
            return ast.copy_location(ast.Pass(), node)
        # <x>.tracer.trace(f"...")  (openpectus.lang.exec.tracer.Tracer: a debug-logging helper, disabled by default)
        if (isinstance(v, ast.Call) and isinstance(v.func, ast.Attribute) and v.func.attr == "trace"
                and isinstance(v.func.value, ast.Attribute) and v.func.value.attr == "tracer"):
            stats["stripped"] += 1
            return ast.copy_location(ast.Pass(), node)
        return node


class _Loader(importlib.machinery.SourceFileLoader):
    def source_to_code(self, data, path, *, _optimize=-1):  # type: ignore[override]
        tree = ast.parse(data, filename=path)
        tree = _Strip().visit(tree)
        for t in _extra_transforms:
            tree = t(self.name, tree) or tree
        ast.fix_missing_locations(tree)
        stats["modules"] += 1
        return compile(tree, path, "exec", dont_inherit=True, optimize=_optimize)

    # never read or write .pyc for transformed modules
    def get_code(self, fullname):
        source_path = self.get_filename(fullname)
        source_bytes = self.get_data(source_path)
        return self.source_to_code(source_bytes, source_path)


class _Finder(importlib.abc.MetaPathFinder):
    def find_spec(self, fullname, path, target=None):
        if not (fullname == "openpectus" or fullname.startswith("openpectus.")):
            return None
        spec = importlib.machinery.PathFinder.find_spec(fullname, path, target)
        if spec is None or not isinstance(spec.loader, importlib.machinery.SourceFileLoader):
            return spec
        spec.loader = _Loader(spec.loader.name, spec.loader.path)
        return spec


_installed = False


def install(extra_transform=None):
    global _installed
    if extra_transform is not None:
        _extra_transforms.append(extra_transform)
    if _installed:
        return
    already = [m for m in sys.modules if m == "openpectus" or m.startswith("openpectus.")]
    if already:
        raise RuntimeError(f"symx.loader.install() called after openpectus was imported: {already[:3]}")
    sys.meta_path.insert(0, _Finder())
    _installed = True
