r"""Engine B helper: translate a Python `re` pattern (sre parse tree) into a z3 regular expression.

`search_language(pattern)` returns a z3 RE over *whole strings*:  s is in it  <=>  re.search(pattern, s)
is not None.  `match_language` / `fullmatch_language` do the same for re.match / re.fullmatch.  The
translation works on prefix languages, so anchors and look-behinds are handled where they stand:

  state = (A, B0, B1)   languages of the *prefix of the subject string consumed so far*
     A   no `$` passed yet
     B0  a `$` has been passed and nothing consumed since (the rest of the subject must be "" or "\n")
     B1  a `$` has been passed and the final "\n" has been consumed, or `\Z` passed (rest must be "")
  item X (anchor free)     A.X ;  B0.(X & eps) ;  B0.(X & "\n") | B1.(X & eps)
  `^`                      every component intersected with eps (no MULTILINE)
  `$`                      A, B0 -> B0 ; B1 stays
  (?<!P) / (?<=P)          every component intersected with (not) Sigma* . P
  branch / group           union of the component-wise results / recursion
  search language          A . Sigma*  |  B0 . ("" | "\n")  |  B1        started from A = Sigma*

Character classes (`\s`, `\d`, `\w`, `.`) are not copied from documentation: their code-point sets are
read off the running interpreter by matching every code point with `re` once (cached).  Strings are
z3 strings: code points 0..MAX_CP (0x2FFFF, z3's character sort); Python code points above that are
outside every claim made with this translator.

Unsupported constructs raise `Unsupported` (never silently approximated): look-aheads, back-references,
word boundaries, MULTILINE / IGNORECASE / VERBOSE flags, repeats whose body contains an anchor or
look-around (other than {0,1} / {1,1}).

`validate(pattern, strings)` compares the z3 membership with Python `re` on concrete strings -- every check
that relies on the translator calls it on each run.
"""
from __future__ import annotations

import re
import re._constants as C      # type: ignore
import re._parser as P         # type: ignore

import z3

MAX_CP = 0x2FFFF


class Unsupported(Exception):
    pass


# ---------------------------------------------------------------------------------------------------
# z3 helpers
# ---------------------------------------------------------------------------------------------------
_SEQ = z3.StringSort()
_RES = z3.ReSort(_SEQ)


def sval(text: str):
    """z3 string literal for a Python str (escape-safe: z3.StringVal would interpret '\\u{..}' inside text)."""
    for ch in text:
        if ord(ch) > MAX_CP:
            raise Unsupported(f"code point U+{ord(ch):X} outside z3's character sort")
    return z3.StringVal("".join(ch if (ch.isascii() and ch.isalnum()) else "\\u{%x}" % ord(ch) for ch in text))


def lit(text: str):
    return z3.Re(sval(text))


def eps():
    return z3.Re(z3.StringVal(""))


def none():
    return z3.Empty(_RES)


def sigma():
    return z3.AllChar(_RES)


def sigma_star():
    return z3.Full(_RES)


def union(rs):
    rs = [r for r in rs if r is not None]
    if not rs:
        return None
    if len(rs) == 1:
        return rs[0]
    return z3.Union(*rs)


def concat(a, b):
    if a is None or b is None:
        return None
    return z3.Concat(a, b)


def inter(a, b):
    if a is None or b is None:
        return None
    return z3.Intersect(a, b)


def ranges_re(ranges):
    """RE of single characters from a list of inclusive code-point ranges."""
    parts = []
    for lo, hi in ranges:
        hi = min(hi, MAX_CP)
        if lo > hi:
            continue
        parts.append(lit(chr(lo)) if lo == hi else z3.Range(sval(chr(lo)), sval(chr(hi))))
    u = union(parts)
    return none() if u is None else u


def _to_ranges(cps):
    out, start, prev = [], None, None
    for c in cps:
        if start is None:
            start = prev = c
        elif c == prev + 1:
            prev = c
        else:
            out.append((start, prev))
            start = prev = c
    if start is not None:
        out.append((start, prev))
    return out


_CATEGORY_SRC = {
    C.CATEGORY_SPACE: r"\s", C.CATEGORY_NOT_SPACE: r"\S", C.CATEGORY_DIGIT: r"\d", C.CATEGORY_NOT_DIGIT: r"\D",
    C.CATEGORY_WORD: r"\w", C.CATEGORY_NOT_WORD: r"\W",
}
_cat_cache: dict = {}


def category_ranges(cat, flags=0):
    """Code-point ranges of a character category, measured on the running `re` module."""
    key = (cat, bool(flags & re.ASCII))
    if key not in _cat_cache:
        src = _CATEGORY_SRC.get(cat)
        if src is None:
            raise Unsupported(f"category {cat}")
        pat = re.compile(src, re.ASCII if flags & re.ASCII else 0)
        _cat_cache[key] = _to_ranges([c for c in range(MAX_CP + 1) if pat.fullmatch(chr(c))])
    return _cat_cache[key]


def _complement_ranges(ranges):
    out, nxt = [], 0
    for lo, hi in sorted(ranges):
        if lo > nxt:
            out.append((nxt, lo - 1))
        nxt = max(nxt, hi + 1)
    if nxt <= MAX_CP:
        out.append((nxt, MAX_CP))
    return out


def _merge(ranges):
    out = []
    for lo, hi in sorted(ranges):
        if out and lo <= out[-1][1] + 1:
            out[-1] = (out[-1][0], max(out[-1][1], hi))
        else:
            out.append((lo, hi))
    return out


# ---------------------------------------------------------------------------------------------------
# anchor-free sub-patterns -> plain z3 RE
# ---------------------------------------------------------------------------------------------------
def _in_ranges(items, flags):
    negate, rs = False, []
    for op, av in items:
        if op is C.NEGATE:
            negate = True
        elif op is C.LITERAL:
            rs.append((av, av))
        elif op is C.RANGE:
            rs.append((av[0], av[1]))
        elif op is C.CATEGORY:
            rs.extend(category_ranges(av, flags))
        else:
            raise Unsupported(f"set item {op}")
    rs = _merge(rs)
    return _complement_ranges(rs) if negate else rs


def _is_plain(seq) -> bool:
    """True when the (sub)pattern contains no anchor / look-around (so it denotes a plain language)."""
    for op, av in seq:
        if op in (C.AT, C.ASSERT, C.ASSERT_NOT):
            return False
        if op is C.SUBPATTERN:
            if not _is_plain(av[3]):
                return False
        elif op is C.BRANCH:
            if not all(_is_plain(b) for b in av[1]):
                return False
        elif op in (C.MAX_REPEAT, C.MIN_REPEAT, C.POSSESSIVE_REPEAT):
            if not _is_plain(av[2]):
                return False
        elif op is C.ATOMIC_GROUP:
            if not _is_plain(av):
                return False
        elif op in (C.GROUPREF, C.GROUPREF_EXISTS):
            raise Unsupported("back-reference")
    return True


def plain(seq, flags=0):
    """z3 RE of an anchor-free pattern sequence (language of the matched text)."""
    parts = []
    for op, av in seq:
        if op is C.LITERAL:
            parts.append(lit(chr(av)))
        elif op is C.NOT_LITERAL:
            parts.append(ranges_re(_complement_ranges([(av, av)])))
        elif op is C.ANY:
            parts.append(sigma() if flags & re.DOTALL else ranges_re(_complement_ranges([(10, 10)])))
        elif op is C.IN:
            parts.append(ranges_re(_in_ranges(av, flags)))
        elif op is C.CATEGORY:
            parts.append(ranges_re(category_ranges(av, flags)))
        elif op is C.SUBPATTERN:
            _g, add, dele, sub = av
            if add or dele:
                raise Unsupported("inline flags")
            parts.append(plain(sub, flags))
        elif op is C.BRANCH:
            parts.append(z3.Union(*[plain(b, flags) for b in av[1]]) if len(av[1]) > 1 else plain(av[1][0], flags))
        elif op in (C.MAX_REPEAT, C.MIN_REPEAT):          # greedy / lazy: same language
            lo, hi, sub = av
            body = plain(sub, flags)
            if hi is C.MAXREPEAT:
                star = z3.Star(body)
                parts.append(star if lo == 0 else (z3.Plus(body) if lo == 1 else z3.Concat(z3.Loop(body, lo, lo), star)))
            elif (lo, hi) == (0, 1):
                parts.append(z3.Option(body))
            else:
                parts.append(z3.Loop(body, lo, hi))
        else:
            # possessive repeats / atomic groups change the *language* w.r.t. backtracking: not modelled
            raise Unsupported(f"construct {op}")
    if not parts:
        return eps()
    return parts[0] if len(parts) == 1 else z3.Concat(*parts)


# ---------------------------------------------------------------------------------------------------
# prefix-language translation (anchors, look-behind)
# ---------------------------------------------------------------------------------------------------
def _step_plain(state, x):
    a, b0, b1 = state
    x_eps = z3.Intersect(x, eps())
    x_nl = z3.Intersect(x, lit("\n"))
    return (concat(a, x),
            concat(b0, x_eps),
            union([concat(b0, x_nl), concat(b1, x_eps)]))


def _map(state, f):
    return tuple(None if c is None else f(c) for c in state)


def _join(states):
    return tuple(union([s[i] for s in states]) for i in range(3))


def _walk(seq, state, flags):
    # group maximal runs of plain items so the formulas stay small
    i, n = 0, len(seq)
    items = list(seq)
    while i < n:
        j = i
        while j < n and _is_plain([items[j]]):
            j += 1
        if j > i:
            state = _step_plain(state, plain(items[i:j], flags))
            i = j
            continue
        op, av = items[i]
        i += 1
        if op is C.AT:
            if av in (C.AT_BEGINNING, C.AT_BEGINNING_STRING):
                state = _map(state, lambda c: z3.Intersect(c, eps()))
            elif av is C.AT_END:
                a, b0, b1 = state
                state = (None, union([a, b0]), b1)
            elif av is C.AT_END_STRING:
                a, b0, b1 = state
                state = (None, None, union([a, b0, b1]))
            else:
                raise Unsupported(f"anchor {av}")
        elif op in (C.ASSERT, C.ASSERT_NOT):
            direction, sub = av
            if direction >= 0:
                raise Unsupported("look-ahead")
            if not _is_plain(sub):
                raise Unsupported("anchor inside look-behind")
            tail = z3.Concat(sigma_star(), plain(sub, flags))
            if op is C.ASSERT_NOT:
                tail = z3.Complement(tail)
            state = _map(state, lambda c, t=tail: z3.Intersect(c, t))
        elif op is C.SUBPATTERN:
            _g, add, dele, sub = av
            if add or dele:
                raise Unsupported("inline flags")
            state = _walk(sub, state, flags)
        elif op is C.BRANCH:
            state = _join([_walk(b, state, flags) for b in av[1]])
        elif op in (C.MAX_REPEAT, C.MIN_REPEAT):
            lo, hi, sub = av
            if (lo, hi) == (1, 1):
                state = _walk(sub, state, flags)
            elif (lo, hi) == (0, 1):
                state = _join([state, _walk(sub, state, flags)])
            else:
                raise Unsupported("repeat over an anchor / look-around")
        else:
            raise Unsupported(f"construct {op}")
    return state


_BAD_FLAGS = re.MULTILINE | re.IGNORECASE | re.VERBOSE | re.LOCALE


def _parse(pattern: str, flags: int):
    tree = P.parse(pattern, flags)
    fl = tree.state.flags
    if fl & _BAD_FLAGS:
        raise Unsupported(f"flags {fl}")
    return tree, fl


def _finish(state):
    a, b0, b1 = state
    u = union([concat(a, sigma_star()), concat(b0, z3.Union(eps(), lit("\n"))), b1])
    return none() if u is None else u


def search_language(pattern: str, flags: int = 0):
    """z3 RE of all strings s with re.search(pattern, s) is not None."""
    tree, fl = _parse(pattern, flags)
    return _finish(_walk(tree, (sigma_star(), None, None), fl))


def match_language(pattern: str, flags: int = 0):
    tree, fl = _parse(pattern, flags)
    return _finish(_walk(tree, (eps(), None, None), fl))


def fullmatch_language(pattern: str, flags: int = 0):
    tree, fl = _parse(pattern, flags)
    a, b0, b1 = _walk(tree, (eps(), None, None), fl)
    # fullmatch: the match must end at the very end of the subject ("$" before a final newline does not count)
    u = union([a, b0, b1])
    return none() if u is None else u


# ---------------------------------------------------------------------------------------------------
# models and validation
# ---------------------------------------------------------------------------------------------------
def model_str(model, s) -> str:
    """Exact Python value of z3 string `s` in `model` (code point by code point, no escape parsing)."""
    n = model.eval(z3.Length(s), model_completion=True).as_long()
    return "".join(chr(model.eval(z3.StrToCode(z3.SubString(s, i, 1)), model_completion=True).as_long()) for i in range(n))


def member(lang, text: str, timeout_ms: int = 10000):
    """True / False / None(unknown): is the concrete string in the z3 language?"""
    s = z3.Solver()
    s.set("timeout", timeout_ms)
    s.add(z3.InRe(sval(text), lang))
    r = s.check()
    return True if r == z3.sat else (False if r == z3.unsat else None)


def validate(pattern: str, strings, how: str = "search", lang=None, timeout_ms: int = 10000):
    """Differential test of the translation against Python `re` on concrete strings.

    Returns (n_checked, mismatches[list of (string, re_says, z3_says)], unknown_count)."""
    if lang is None:
        lang = {"search": search_language, "match": match_language, "fullmatch": fullmatch_language}[how](pattern)
    fn = getattr(re, how)
    bad, unk, n = [], 0, 0
    for t in strings:
        if any(ord(ch) > MAX_CP for ch in t):
            continue
        n += 1
        want = fn(pattern, t) is not None
        got = member(lang, t, timeout_ms)
        if got is None:
            unk += 1
        elif got != want:
            bad.append((t, want, got))
    return n, bad, unk


# ---------------------------------------------------------------------------------------------------
# cross-check with a second solver
# ---------------------------------------------------------------------------------------------------
def cvc5_verdict(solver, timeout_ms: int = 20000) -> str:
    """Run the SMT-LIB text of a z3 `Solver` through cvc5.  Returns "sat" | "unsat" | "unknown" | "error: ..".

    Used to cross-check Engine-B verdicts: a definite cvc5 answer that differs from z3's makes the query
    inconclusive; "unknown"/timeout/error from cvc5 is noted and ignored."""
    try:
        import cvc5
        text = solver.to_smt2()
        slv = cvc5.Solver()
        slv.setOption("tlimit-per", str(int(timeout_ms)))
        slv.setLogic("ALL")
        parser = cvc5.InputParser(slv)
        parser.setStringInput(cvc5.InputLanguage.SMT_LIB_2_6, text, "query")
        sm = parser.getSymbolManager()
        verdict = "unknown"
        while True:
            cmd = parser.nextCommand()
            if cmd.isNull():
                break
            out = str(cmd.invoke(slv, sm)).strip()
            if out in ("sat", "unsat", "unknown"):
                verdict = out
        return verdict
    except Exception as e:  # noqa
        return f"error: {type(e).__name__}: {str(e)[:120]}"
