"""Yield-point instrumentation (used by C40 only).

An import-time AST transform inserts a call  __yp__("<Class>.<func>:<n>")  before every statement of selected functions.
`__yp__` is a builtin that forwards to the currently installed hook (a no-op by default), so a harness can run another
party's code at a chosen statement boundary of the instrumented function -- deterministic, single-threaded interleaving.
No repo edits are needed; the hook only adds calls to a no-op.
"""
from __future__ import annotations

import ast
import builtins

TARGETS: dict[str, set[str]] = {}     # module name -> {"Class.func", ...}
_hook = {"fn": None}
labels: list[str] = []                # all labels created (for evidence)


def __yp__(label: str):
    fn = _hook["fn"]
    if fn is not None:
        fn(label)


builtins.__yp__ = __yp__


def set_hook(fn):
    _hook["fn"] = fn


class _Instr(ast.NodeTransformer):
    def __init__(self, modname, wanted):
        self.modname, self.wanted = modname, wanted
        self.cls = []
        self.counter = 0
        self.current = None

    def visit_ClassDef(self, node):
        self.cls.append(node.name)
        self.generic_visit(node)
        self.cls.pop()
        return node

    def visit_FunctionDef(self, node):
        qual = ".".join(self.cls + [node.name])
        if self.current is None and qual in self.wanted:
            self.current, self.counter = qual, 0
            node.body = self._body(node.body, skip_doc=True)
            self.current = None
            return node
        return node

    def _yp(self, ref):
        label = f"{self.current}:{self.counter}"
        self.counter += 1
        labels.append(label)
        call = ast.Expr(ast.Call(func=ast.Name(id="__yp__", ctx=ast.Load()), args=[ast.Constant(label)], keywords=[]))
        return ast.copy_location(call, ref)

    def _body(self, stmts, skip_doc=False):
        out = []
        for i, st in enumerate(stmts):
            is_doc = skip_doc and i == 0 and isinstance(st, ast.Expr) and isinstance(getattr(st, "value", None), ast.Constant) and isinstance(st.value.value, str)
            if not is_doc and not isinstance(st, (ast.FunctionDef, ast.ClassDef)):
                out.append(self._yp(st))
            for field in ("body", "orelse", "finalbody"):
                sub = getattr(st, field, None)
                if isinstance(sub, list) and sub and isinstance(sub[0], ast.stmt) and not isinstance(st, (ast.FunctionDef, ast.ClassDef)):
                    setattr(st, field, self._body(sub))
            if isinstance(st, ast.Try):
                for h in st.handlers:
                    h.body = self._body(h.body)
            out.append(st)
        return out


def transform(modname: str, tree: ast.AST):
    wanted = TARGETS.get(modname)
    if not wanted:
        return tree
    return _Instr(modname, wanted).visit(tree)
