"""Input providers handed to harnesses.

A harness is `def harness(sym)`: it draws its inputs from `sym`, drives the real code and raises
`symx.Violation` when the property's assertion fails.  The *same* harness body runs

  * under CrossHair (`ChSym`): every draw is a z3 variable constrained to its range, every branch
    on it is decided by the solver, one explored path stands for all concrete inputs taking it;
  * concretely (`ReplaySym`): draws are read from a witness dict -- used to replay a solver model
    against the unmodified code, without CrossHair and without the import transform.
"""
from __future__ import annotations

import contextlib
from fractions import Fraction
from typing import Any, Sequence

from . import Violation


class SymBase:
    mode = "abstract"

    def __init__(self, shard: dict | None = None):
        self.shard: dict = dict(shard or {})
        self.inputs: dict[str, Any] = {}      # name -> value (symbolic or concrete)
        self.reached = 0                      # assertion evaluations on this path
        self.notes: dict[str, Any] = {}
        self.soft_signatures: set = set()     # signatures (known findings) that do not end the path
        self.soft: list = []                  # Violations of soft signatures seen on this path

    # -- bookkeeping -------------------------------------------------------------------------
    def _register(self, name: str, value):
        if name in self.inputs:
            raise RuntimeError(f"harness bug: duplicate symbolic input name {name!r}")
        self.inputs[name] = value
        return value

    def reach(self, n: int = 1):
        """Mark that the property's assertion is being evaluated on this path (anti-vacuity)."""
        self.reached += n

    def note(self, key: str, value):
        self.notes[key] = value

    def check(self, cond, signature: str, detail: str = "", data=None):
        """Evaluate one assertion of the property; `cond` may be symbolic (forks)."""
        self.reached += 1
        if not cond:
            # lazy detail: formatting symbolic values concretises them.  Under symbolic execution the callable is kept and
            # evaluated by the explore loop only after the path has been detached from the search tree.
            if callable(detail) and self.mode != "symbolic":
                detail = detail()
            if signature in self.soft_signatures:
                # a recorded known finding: remember it, keep exploring this path for *other* violations
                if not any(v.signature == signature for v in self.soft):
                    self.soft.append(Violation(signature, detail, data))
                return
            raise Violation(signature, detail, data)

    def concrete(self):
        """Context in which CrossHair tracing is off (object construction, recorders)."""
        return contextlib.nullcontext()

    def choice(self, name: str, options: Sequence):
        i = self.int(name, 0, len(options) - 1)
        for k in range(len(options) - 1):
            if i == k:
                return options[k]
        return options[len(options) - 1]

    def index(self, name: str, n: int) -> int:
        """A concrete int in [0, n) chosen by the solver (forks n ways)."""
        return self.choice(name, list(range(n)))

    # to be provided
    def int(self, name: str, lo: int, hi: int): raise NotImplementedError
    def bool(self, name: str): raise NotImplementedError
    def real(self, name: str, lo=None, hi=None, lo_strict=False, hi_strict=False): raise NotImplementedError
    def grid(self, name: str, lo_n: int, hi_n: int, denom: int): raise NotImplementedError
    def str(self, name: str, max_len: int, alphabet: str | None = None): raise NotImplementedError
    def assume(self, cond): raise NotImplementedError
    def realize(self, v): return v


class ReplaySym(SymBase):
    mode = "replay"

    def __init__(self, witness: dict, shard: dict | None = None):
        super().__init__(shard)
        self.witness = dict(witness)

    def _get(self, name, default):
        return self._register(name, self.witness.get(name, default))

    def int(self, name, lo, hi):
        v = int(self._get(name, lo))
        if not (lo <= v <= hi):
            raise ReplayOutOfRange(f"{name}={v} not in [{lo},{hi}]")
        return v

    def bool(self, name):
        return bool(self._get(name, False))

    def real(self, name, lo=None, hi=None, lo_strict=False, hi_strict=False):
        d = lo if lo is not None else 0.0
        if lo_strict:
            d = d + 1.0
        v = self._get(name, d)
        if isinstance(v, str):           # exact rational written as "p/q"
            v = float(Fraction(v))
        v = float(v)
        if lo is not None and (v < lo or (lo_strict and v == lo)):
            raise ReplayOutOfRange(f"{name}={v} below {lo}")
        if hi is not None and (v > hi or (hi_strict and v == hi)):
            raise ReplayOutOfRange(f"{name}={v} above {hi}")
        return v

    def grid(self, name, lo_n, hi_n, denom):
        n = self.int(name, lo_n, hi_n)
        return n / denom

    def str(self, name, max_len, alphabet=None):
        v = self._get(name, "")
        if len(v) > max_len or (alphabet is not None and any(c not in alphabet for c in v)):
            raise ReplayOutOfRange(f"{name}={v!r} outside domain")
        return v

    def assume(self, cond):
        if not cond:
            raise ReplayOutOfRange("assumption false on replay")


class ReplayOutOfRange(Exception):
    pass


class ChSym(SymBase):
    """Symbolic provider; only valid inside symx.core.explore (a CrossHair StateSpace is active)."""
    mode = "symbolic"

    def __init__(self, shard=None):
        super().__init__(shard)
        from crosshair.statespace import context_statespace
        from crosshair.libimpl import builtinslib as bl
        from crosshair.tracers import NoTracing
        import z3
        self._space = context_statespace
        self._bl = bl
        self._NoTracing = NoTracing
        self._z3 = z3

    def concrete(self):
        return self._NoTracing()

    def int(self, name, lo, hi):
        bl, z3 = self._bl, self._z3
        with self._NoTracing():
            sp = self._space()
            v = bl.SymbolicInt(name + sp.uniq())
            sp.add(v.var >= z3.IntVal(lo))
            sp.add(v.var <= z3.IntVal(hi))
            return self._register(name, v)

    def bool(self, name):
        bl = self._bl
        with self._NoTracing():
            sp = self._space()
            v = bl.SymbolicBool(name + sp.uniq())
            return self._register(name, v)

    def real(self, name, lo=None, hi=None, lo_strict=False, hi_strict=False):
        bl, z3 = self._bl, self._z3
        with self._NoTracing():
            sp = self._space()
            sp.extra(bl.ModelingDirector).global_representations[float] = bl.RealBasedSymbolicFloat
            v = bl.RealBasedSymbolicFloat(name + sp.uniq())
            if lo is not None:
                l = z3.RealVal(str(Fraction(lo)))
                sp.add(v.var > l if lo_strict else v.var >= l)
            if hi is not None:
                h = z3.RealVal(str(Fraction(hi)))
                sp.add(v.var < h if hi_strict else v.var <= h)
            return self._register(name, v)

    def grid(self, name, lo_n, hi_n, denom):
        n = self.int(name, lo_n, hi_n)
        with self._NoTracing():
            sp = self._space()
            sp.extra(self._bl.ModelingDirector).global_representations[float] = self._bl.RealBasedSymbolicFloat
        return n / denom

    def str(self, name, max_len, alphabet=None):
        bl, z3 = self._bl, self._z3
        with self._NoTracing():
            sp = self._space()
            v = bl.LazyIntSymbolicStr(name + sp.uniq())
        # length / alphabet constraints need tracing on (they fork lazily)
        if not (len(v) <= max_len):
            from crosshair.util import IgnoreAttempt
            raise IgnoreAttempt("len")
        if alphabet is not None:
            for ch in v:
                if ch not in alphabet:
                    from crosshair.util import IgnoreAttempt
                    raise IgnoreAttempt("alphabet")
        return self._register(name, v)

    def assume(self, cond):
        if not cond:
            from crosshair.util import IgnoreAttempt
            raise IgnoreAttempt("assume")

    def realize(self, v):
        from crosshair.core import deep_realize
        return deep_realize(v)

    def witness(self) -> dict:
        """Concretise every input drawn so far from the current path's model."""
        from crosshair.core import deep_realize
        out = {}
        for k, v in self.inputs.items():
            r = deep_realize(v)
            if isinstance(r, float):
                out[k] = r
            elif isinstance(r, (bool, int, str)) or r is None:
                out[k] = r
            else:
                out[k] = repr(r)
        return out
