"""Engine A: path exploration of a harness under CrossHair's StateSpace.

`explore(harness, shard, budget)` runs `harness(ChSym)` once per execution path.  Every branch on a
solver variable is decided by z3 inside CrossHair; the loop ends when the path tree is exhausted
(every feasible path executed: the bounded claim holds), when the CPU budget is used up
(inconclusive) or -- optionally -- at the first violation.  Unlike `crosshair check` the loop keeps
going after a violation so that *all* distinct violation signatures inside the bound are collected
(needed to tell a known finding from a new one).
"""
from __future__ import annotations

import sys
import time
import traceback
from time import process_time, monotonic

from . import Violation
from .sym import ChSym

_SOLVER = {"checks": 0, "seconds": 0.0, "patched": False}


def _patch_solver_timing():
    if _SOLVER["patched"]:
        return
    import z3
    orig = z3.Solver.check

    def check(self, *a, **kw):
        t = monotonic()
        try:
            return orig(self, *a, **kw)
        finally:
            _SOLVER["checks"] += 1
            _SOLVER["seconds"] += monotonic() - t
    z3.Solver.check = check
    _SOLVER["patched"] = True


_REAL = {"n": 0, "patched": False}


def _patch_realization_counter():
    """Count concretisations of solver variables made while a path is still attached to the search tree
    (each one turns into value enumeration: a leak of symbolic data into a C boundary or an f-string)."""
    if _REAL["patched"]:
        return
    from crosshair import statespace
    orig = statespace.StateSpace.find_model_value

    def fmv(self, expr, *a, **kw):
        if not getattr(self, "is_detached", False):
            _REAL["n"] += 1
        return orig(self, expr, *a, **kw)
    statespace.StateSpace.find_model_value = fmv
    _REAL["patched"] = True


def explore(harness, shard: dict | None = None, *, cpu_budget: float = 30.0, per_path_timeout: float = 20.0,
            max_paths: int = 1_000_000, stop_on_violation: bool = False, allow_reals: bool = True,
            max_violations: int = 40, seed: int = 0, soft_signatures=()) -> dict:
    from crosshair.core import Patched, ExceptionFilter, NoTracing, ResumedTracing, realize
    from crosshair.core_and_libs import standalone_statespace  # noqa: F401  (forces plugin/libimpl registration)
    from crosshair.statespace import (StateSpace, StateSpaceContext, RootNode, CallAnalysis, VerificationStatus)
    from crosshair.tracers import COMPOSITE_TRACER
    from crosshair.util import IgnoreAttempt, UnexploredPath, NotDeterministic
    from crosshair.condition_parser import condition_parser
    from crosshair.options import AnalysisKind

    _patch_solver_timing()
    _patch_realization_counter()
    real0 = _REAL["n"]
    checks0, solver0 = _SOLVER["checks"], _SOLVER["seconds"]
    t_wall, t_cpu = monotonic(), process_time()
    root = RootNode()
    try:
        root.pathing_oracle.rand.seed(seed)  # type: ignore[attr-defined]
    except Exception:
        pass
    res = {"paths": 0, "reached_paths": 0, "assertions": 0, "unknown_paths": 0, "ignored_paths": 0,
           "exhausted": False, "violations": [], "errors": [], "sample": None, "budget_hit": False,
           "unknown_reasons": {}}
    seen_sigs: dict[str, int] = {}
    for i in range(max_paths):
        start = process_time()
        if start - t_cpu > cpu_budget:
            res["budget_hit"] = True
            break
        space = StateSpace(execution_deadline=start + per_path_timeout,
                           model_check_timeout=per_path_timeout / 2, search_root=root)
        if allow_reals:
            space.cap_result_at_unknown = lambda: None  # reals-for-floats is a stated assumption
        breakout = False
        res["paths"] += 1
        status = None
        with condition_parser([AnalysisKind.PEP316]), Patched(), COMPOSITE_TRACER, NoTracing(), StateSpaceContext(space):
            sym = None
            try:
                with ExceptionFilter() as efilter, ResumedTracing():
                    sym = ChSym(shard)
                    sym.soft_signatures = set(soft_signatures)
                    hard = None
                    try:
                        harness(sym)
                    except Violation as v:
                        hard = v
                    found = list(sym.soft) + ([hard] if hard is not None else [])
                    if found:
                        space.detach_path()
                        w = sym.witness()
                        for v in found:
                            if callable(v.detail):
                                try:
                                    v.detail = v.detail()
                                except Exception as ex:  # noqa
                                    v.detail = f"<detail unavailable: {type(ex).__name__}>"
                            n = seen_sigs.get(v.signature, 0)
                            seen_sigs[v.signature] = n + 1
                            if n < 3 and len(res["violations"]) < max_violations:
                                res["violations"].append({"signature": v.signature, "detail": str(sym.realize(v.detail))[:600],
                                                          "witness": w, "shard": shard or {}})
                        if stop_on_violation:
                            breakout = True
                    elif res["sample"] is None and sym.reached:
                        space.detach_path()
                        res["sample"] = {"inputs": sym.witness(), "notes": _plain(sym.realize(sym.notes))}
                if efilter.user_exc is not None:
                    exc, stack = efilter.user_exc
                    if len(res["errors"]) < 5:
                        res["errors"].append({"type": type(exc).__name__, "msg": str(exc)[:400],
                                              "tb": "".join(stack.format()[-12:])[-3000:], "shard": shard or {}})
                    status = VerificationStatus.CONFIRMED
                elif efilter.ignore:
                    status = None
                    res["ignored_paths"] += 1
                else:
                    status = VerificationStatus.CONFIRMED
                if sym is not None and sym.reached:
                    res["reached_paths"] += 1
                    res["assertions"] += sym.reached
            except IgnoreAttempt:
                status = None
                res["ignored_paths"] += 1
            except UnexploredPath as e:
                status = VerificationStatus.UNKNOWN
                res["unknown_paths"] += 1
                k = type(e).__name__
                res["unknown_reasons"][k] = res["unknown_reasons"].get(k, 0) + 1
            except NotDeterministic as e:
                status = VerificationStatus.UNKNOWN
                res["unknown_paths"] += 1
                res["unknown_reasons"]["NotDeterministic"] = res["unknown_reasons"].get("NotDeterministic", 0) + 1
            _a, exhausted = space.bubble_status(CallAnalysis(status))
        if exhausted:
            res["exhausted"] = True
            break
        if breakout:
            break
        if len(res["errors"]) >= 5:
            break
    res["realizations"] = _REAL["n"] - real0
    res["solver_checks"] = _SOLVER["checks"] - checks0
    res["solver_s"] = round(_SOLVER["seconds"] - solver0, 3)
    res["wall_s"] = round(monotonic() - t_wall, 3)
    res["cpu_s"] = round(process_time() - t_cpu, 3)
    return res


def _plain(x):
    try:
        import json
        json.dumps(x)
        return x
    except Exception:
        return repr(x)
