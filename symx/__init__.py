"""symx: solver-based checking of the real Open-Pectus code (CrossHair/z3 driven).

Layout
  symx.core     path-exploration loop over CrossHair's StateSpace (Engine A)
  symx.sym      symbolic / replay input providers handed to harnesses
  symx.loader   import-time AST transform (log stripping) for openpectus.* under tracing
  symx.driver   shard pool, replay, known findings, evidence, CLI
  symx.rx       sre-parse-tree -> z3 regex translator (Engine B)
"""

VERIF_DIR = __import__("os").path.dirname(__import__("os").path.dirname(__import__("os").path.abspath(__file__)))
REPO_DIR = __import__("os").environ.get("SYMX_REPO", "/repo")


class Violation(Exception):
    """Raised by a harness when the property's assertion fails on the current path.

    signature: stable identifier of *what* fails (call site / scenario class / unit pair ...);
               used to match known findings, so a different violation of the same property
               is still reported.
    detail:    human readable description.
    """

    def __init__(self, signature: str, detail: str = "", data=None):
        super().__init__(f"{signature}: {detail}")
        self.signature = signature
        self.detail = detail
        self.data = data


class Reached(Exception):
    """Raised by the reachability twin at the point where the assertion is evaluated."""
