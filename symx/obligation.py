"""Declarative description of what a property module (props/Cxx.py) exports."""
from __future__ import annotations

from dataclasses import dataclass, field
from typing import Callable, Any


@dataclass
class Obligation:
    name: str
    kind: str                       # "crosshair" (Engine A) | "z3" (Engine B) | "finite" (concrete, exhaustive table)
    # crosshair: harness(sym) raising symx.Violation
    harness: Callable | None = None
    # z3/finite: run(shard, tier) -> dict(queries=int, unsat=int, sat=int, unknown=int, violations=[...], samples=[...], ...)
    run: Callable | None = None
    # replay(witness, shard) -> raises Violation if the witness reproduces on the real code; default for
    # crosshair obligations: the harness itself under ReplaySym.
    replay: Callable | None = None
    # shards(tier) -> list[dict]; every shard is explored independently (own path tree / own queries)
    shards: Callable[[str], list] = lambda tier: [{}]
    cpu_budget: dict = field(default_factory=lambda: {"quick": 40.0, "thorough": 300.0})   # per shard, CPU s
    per_path_timeout: float = 30.0
    encoded: list = field(default_factory=list)        # qualified names of repo functions executed symbolically
    bounds: dict = field(default_factory=dict)         # {"quick": "...", "thorough": "..."}
    assumptions: list = field(default_factory=list)    # stubs + assumes (part of the claim)
    symbolic: str = ""                                 # what the solver variables are
    decides: str = "solver"                            # "solver" | "concrete" (solver-generated inputs, concrete decision) | "table"
    strip_logs: bool = True
    notes: str = ""
