"""Check driver:  python -m symx.driver <Cxx> [--tier quick|thorough] [--replay file]

 * builds the shard list of every obligation of props/<Cxx>.py,
 * explores the shards in a pool of spawned workers (CrossHair / z3 inside the workers),
 * replays every counterexample against the *unmodified* real code in a fresh interpreter
   (no CrossHair, no import transform); only reproduced counterexamples count,
 * matches reproduced violations against /verif/known_findings.json,
 * writes /verif/evidence/<Cxx>.json,
 * exit 0 = held on everything explored (known findings are printed as KNOWN-FINDING lines),
   exit 1 = `VIOLATION property=<id> replay=<path>` printed, exit 2 = harness error (never a verdict).
"""
from __future__ import annotations

import argparse
import hashlib
import importlib
import inspect
import json
import multiprocessing as mp
import os
import random
import subprocess
import sys
import time
import traceback

from . import VERIF_DIR, REPO_DIR, Violation

EXIT_OK, EXIT_VIOLATION, EXIT_HARNESS = 0, 1, 2


# ------------------------------------------------------------------------------------------------
# worker side
# ------------------------------------------------------------------------------------------------
def _worker_init(strip_logs: bool):
    os.environ.setdefault("PYTHONHASHSEED", "0")
    sys.setrecursionlimit(10000)
    if strip_logs:
        from . import loader
        loader.install()
    import logging
    logging.disable(logging.CRITICAL)


def _load(prop: str):
    return importlib.import_module(f"props.{prop}")


def _run_task(task):
    prop, obl_name, shard, tier, seed = task
    t0 = time.monotonic()
    out = {"obligation": obl_name, "shard": shard}
    try:
        mod = _load(prop)
        obl = next(o for o in mod.OBLIGATIONS if o.name == obl_name)
        if obl.kind == "crosshair":
            from .core import explore
            r = explore(obl.harness, shard, cpu_budget=obl.cpu_budget.get(tier, 60.0),
                        per_path_timeout=obl.per_path_timeout, seed=seed, soft_signatures=sorted(load_known(prop)))
        else:
            r = obl.run(shard, tier)
            r.setdefault("violations", [])
            r.setdefault("errors", [])
            for v in r["violations"]:
                v.setdefault("shard", shard)
        out.update(r)
    except BaseException as e:  # noqa
        out["errors"] = [{"type": type(e).__name__, "msg": str(e)[:400], "tb": traceback.format_exc()[-3000:], "shard": shard}]
        out.setdefault("violations", [])
    out["task_wall_s"] = round(time.monotonic() - t0, 3)
    # only plain data may cross the process boundary (a leaked symbolic value cannot be pickled and would hang the pool)
    try:
        return json.loads(json.dumps(out, default=lambda o: f"<{type(o).__name__}>"))
    except BaseException as e:  # noqa
        return {"obligation": obl_name, "shard": shard, "violations": [], "task_wall_s": out["task_wall_s"],
                "errors": [{"type": "UnserialisableResult", "msg": f"{type(e).__name__}: {e}"[:300], "tb": "", "shard": shard}]}


# ------------------------------------------------------------------------------------------------
# replay (fresh interpreter, unmodified code)
# ------------------------------------------------------------------------------------------------
def replay_file(path: str) -> int:
    """exit 0: reproduced (prints REPRODUCED signature=...), 3: not reproduced, 2: error."""
    import logging
    logging.disable(logging.CRITICAL)
    with open(path) as f:
        rec = json.load(f)
    mod = _load(rec["property"])
    obl = next(o for o in mod.OBLIGATIONS if o.name == rec["obligation"])
    from .sym import ReplaySym, ReplayOutOfRange
    try:
        if obl.replay is not None:
            obl.replay(rec["witness"], rec.get("shard") or {})
        else:
            rs = ReplaySym(rec["witness"], rec.get("shard") or {})
            # known findings other than the one being replayed do not end the run (same rule as in the symbolic run)
            rs.soft_signatures = set(load_known(rec["property"])) - {rec.get("signature")}
            obl.harness(rs)
            want = [v for v in rs.soft if v.signature == rec.get("signature")]
            if want:
                raise want[0]
            if rs.soft and rec.get("signature") == "sample":
                raise rs.soft[0]
    except Violation as v:
        print(f"REPRODUCED signature={v.signature} detail={v.detail}")
        return 0
    except ReplayOutOfRange as e:
        print(f"NOT-REPRODUCED (witness outside domain: {e})")
        return 3
    print("NOT-REPRODUCED")
    return 3


def _replay_subprocess(path: str, timeout=300):
    env = dict(os.environ)
    env["PYTHONPATH"] = VERIF_DIR + os.pathsep + env.get("PYTHONPATH", "")
    try:
        p = subprocess.run([sys.executable, "-m", "symx.driver", "--replay", path], cwd=VERIF_DIR, env=env,
                           capture_output=True, text=True, timeout=timeout)
    except subprocess.TimeoutExpired:
        return None, "replay timeout"
    sig = None
    for line in p.stdout.splitlines():
        if line.startswith("REPRODUCED signature="):
            sig = line.split("signature=", 1)[1].split(" detail=", 1)[0]
    if p.returncode == 0 and sig is not None:
        return sig, p.stdout.strip()[-500:]
    if p.returncode == 3:
        return None, p.stdout.strip()[-300:]
    return None, ("replay error rc=%s: " % p.returncode) + (p.stderr.strip()[-600:])


# ------------------------------------------------------------------------------------------------
# known findings
# ------------------------------------------------------------------------------------------------
def load_known(prop: str):
    path = os.path.join(VERIF_DIR, "known_findings.json")
    if not os.path.exists(path):
        return {}
    with open(path) as f:
        data = json.load(f)
    return {e["signature"]: e for e in data.get("findings", []) if e["property"] == prop}


def _src_hash(qualnames):
    """hash of the current source of the encoded functions (shows the encoding is regenerated from /repo)."""
    h = hashlib.sha256()
    found = 0
    for qn in qualnames:
        try:
            modname, _, attr = qn.partition(":")
            m = importlib.import_module(modname)
            obj = m
            for part in attr.split("."):
                if part:
                    obj = getattr(obj, part)
            h.update(inspect.getsource(obj).encode())
            found += 1
        except Exception:
            h.update(qn.encode())
    return h.hexdigest()[:16], found


# ------------------------------------------------------------------------------------------------
# main
# ------------------------------------------------------------------------------------------------
def main(argv=None) -> int:
    ap = argparse.ArgumentParser()
    ap.add_argument("prop", nargs="?")
    ap.add_argument("--tier", default=os.environ.get("VERIF_TIER", "quick"))
    ap.add_argument("--replay")
    ap.add_argument("--jobs", type=int, default=int(os.environ.get("SYMX_JOBS", "0")) or min(16, os.cpu_count() or 4))
    ap.add_argument("--only", help="comma separated obligation names")
    ap.add_argument("--wall", type=float, default=0.0, help="overall wall clock guard in seconds")
    args = ap.parse_args(argv)
    if VERIF_DIR not in sys.path:
        sys.path.insert(0, VERIF_DIR)
    if args.replay:
        return replay_file(args.replay)
    prop, tier = args.prop, ("thorough" if args.tier == "thorough" else "quick")
    seed = int(os.environ.get("VERIF_SEED", "0") or 0)
    t0 = time.monotonic()
    mod = _load(prop)
    obls = list(mod.OBLIGATIONS)
    if args.only:
        obls = [o for o in obls if o.name in args.only.split(",")]
    tasks = []
    for o in obls:
        for sh in o.shards(tier):
            tasks.append((prop, o.name, sh, tier, seed))
    rnd = random.Random(seed)
    rnd.shuffle(tasks)
    wall_guard = args.wall or getattr(mod, "WALL_GUARD", {}).get(tier, 1500.0 if tier == "quick" else 7200.0)

    results = []
    ctx = mp.get_context("spawn")
    strip = any(o.strip_logs and o.kind == "crosshair" for o in obls)
    timed_out_tasks = 0
    with ctx.Pool(min(args.jobs, max(1, len(tasks))), initializer=_worker_init, initargs=(strip,), maxtasksperchild=8) as pool:
        it = pool.imap_unordered(_run_task, tasks)
        for _ in range(len(tasks)):
            remaining = wall_guard - (time.monotonic() - t0)
            try:
                results.append(it.next(timeout=max(1.0, remaining)))
            except mp.TimeoutError:
                timed_out_tasks = len(tasks) - len(results)
                pool.terminate()
                break

    # ---- collect ---------------------------------------------------------------------------
    by_obl = {o.name: {"shards": 0, "paths": 0, "reached_paths": 0, "assertions": 0, "unknown_paths": 0, "exhausted_shards": 0,
                       "budget_hit_shards": 0, "solver_checks": 0, "solver_s": 0.0, "cpu_s": 0.0, "queries": 0,
                       "unsat": 0, "sat": 0, "unknown": 0, "samples": [], "table_rows": 0, "decisions": 0, "realizations": 0} for o in obls}
    violations, errors = [], []
    for r in results:
        b = by_obl[r["obligation"]]
        b["shards"] += 1
        for k in ("paths", "reached_paths", "assertions", "unknown_paths", "solver_checks", "queries", "unsat", "sat", "unknown",
                  "table_rows", "decisions", "realizations"):
            b[k] += int(r.get(k, 0) or 0)
        b["solver_s"] += float(r.get("solver_s", 0) or 0)
        b["cpu_s"] += float(r.get("cpu_s", 0) or 0)
        if r.get("exhausted"):
            b["exhausted_shards"] += 1
        if r.get("budget_hit"):
            b["budget_hit_shards"] += 1
        if r.get("sample") is not None and len(b["samples"]) < 3:
            b["samples"].append({"shard": r.get("shard"), **r["sample"]} if isinstance(r["sample"], dict) else r["sample"])
        for s in (r.get("samples") or [])[:3]:
            if len(b["samples"]) < 4:
                b["samples"].append(s)
        for v in r.get("violations", []):
            v["obligation"] = r["obligation"]
            violations.append(v)
        for e in r.get("errors", []):
            e["obligation"] = r["obligation"]
            errors.append(e)

    # ---- replay counterexamples ----------------------------------------------------------------
    os.makedirs(os.path.join(VERIF_DIR, "replays"), exist_ok=True)
    known = load_known(prop)
    reproduced, spurious = {}, []
    replays_run = 0
    per_sig = {}
    for v in violations:
        per_sig.setdefault(v["signature"], []).append(v)
    for sig, vs in sorted(per_sig.items()):
        for v in vs[:3]:
            rec = {"property": prop, "obligation": v["obligation"], "shard": v.get("shard") or {}, "witness": v["witness"],
                   "signature": sig, "detail": v.get("detail", "")}
            hid = hashlib.sha1(json.dumps(rec, sort_keys=True, default=str).encode()).hexdigest()[:10]
            path = os.path.join(VERIF_DIR, "replays", f"{prop}-{hid}.json")
            with open(path, "w") as f:
                json.dump(rec, f, indent=1, default=str)
            got, info = _replay_subprocess(path)
            replays_run += 1
            if got is not None:
                reproduced.setdefault(got, {"path": path, "detail": v.get("detail", ""), "witness": v["witness"], "solver_signature": sig})
                break
            spurious.append({"signature": sig, "info": info, "witness": v["witness"]})
            try:
                os.remove(path)
            except OSError:
                pass

    # ---- sample replays (symbolic harness vs. concrete run agreement) ------------------------------
    sample_replays_ok = 0
    for o in obls:
        if o.kind != "crosshair":
            continue
        for s in by_obl[o.name]["samples"][:1]:
            rec = {"property": prop, "obligation": o.name, "shard": s.get("shard") or {}, "witness": s.get("inputs", {}),
                   "signature": "sample", "detail": "sample path"}
            path = os.path.join(VERIF_DIR, "replays", f"{prop}-sample-{o.name}.json")
            with open(path, "w") as f:
                json.dump(rec, f, default=str)
            got, info = _replay_subprocess(path)
            replays_run += 1
            if got is None and info.startswith("NOT-REPRODUCED"):
                sample_replays_ok += 1
            elif got is not None:
                # concrete run of a path the symbolic run judged fine violates: the encoding disagrees with the code
                errors.append({"type": "SampleReplayDisagrees", "msg": f"{o.name}: {got}", "tb": info, "obligation": o.name})
            else:
                errors.append({"type": "SampleReplayError", "msg": f"{o.name}", "tb": info, "obligation": o.name})
            try:
                os.remove(path)
            except OSError:
                pass

    # ---- verdict ---------------------------------------------------------------------------------
    new = {s: r for s, r in reproduced.items() if s not in known}
    old = {s: r for s, r in reproduced.items() if s in known}
    inconclusive = []
    vacuous = []
    for o in obls:
        b = by_obl[o.name]
        if o.kind == "crosshair":
            if b["exhausted_shards"] < b["shards"] or b["unknown_paths"]:
                inconclusive.append(f"{o.name}: {b['exhausted_shards']}/{b['shards']} shards exhausted, {b['unknown_paths']} unknown paths")
            if b["reached_paths"] == 0:
                vacuous.append(o.name)
        else:
            if b["unknown"]:
                inconclusive.append(f"{o.name}: {b['unknown']} solver answers unknown")
            if b["queries"] + b["table_rows"] == 0:
                vacuous.append(o.name)
    if timed_out_tasks:
        inconclusive.append(f"{timed_out_tasks} shard tasks not finished within the wall guard of {wall_guard:.0f}s")

    for s, r in sorted(old.items()):
        print(f"KNOWN-FINDING: property={prop} {s} -- {known[s].get('description','')}")
    for s, r in sorted(new.items()):
        print(f"VIOLATION property={prop} replay={r['path']}")
        print(f"  signature={s} detail={r['detail']}")
        print(f"  witness={json.dumps(r['witness'], default=str)[:600]}")
    for e in errors[:5]:
        print(f"HARNESS-ERROR property={prop} obligation={e.get('obligation')} {e['type']}: {e['msg']}")
        print("  " + e.get("tb", "").replace("\n", "\n  ")[-1500:])
    for s in inconclusive:
        print(f"INCONCLUSIVE property={prop} {s}")
    for s in vacuous:
        print(f"VACUOUS property={prop} obligation={s}: no path reached the assertion")

    # ---- evidence --------------------------------------------------------------------------------
    wall = time.monotonic() - t0
    ob_ev = []
    for o in obls:
        b = by_obl[o.name]
        h, found = _src_hash(o.encoded)
        ob_ev.append({"name": o.name, "engine": o.kind, "decided_by": o.decides, "functions_encoded": o.encoded,
                      "source_hash_of_encoded_functions": h, "symbolic_inputs": o.symbolic, "bounds": o.bounds.get(tier, o.bounds.get("quick", "")),
                      "assumptions_and_stubs": o.assumptions,
                      **{k: (round(v, 3) if isinstance(v, float) else v) for k, v in b.items() if k != "samples"}})
    total_paths = sum(b["paths"] for b in by_obl.values())
    total_q = sum(b["queries"] for b in by_obl.values())
    total_rows = sum(b["table_rows"] for b in by_obl.values())
    total_reached = sum(b["reached_paths"] for b in by_obl.values())
    samples = []
    for o in obls:
        for s in by_obl[o.name]["samples"][:2]:
            samples.append({"obligation": o.name, **(s if isinstance(s, dict) else {"value": s})})
    level = getattr(mod, "LEVEL", "model_checking")
    coverage = {
        "evaluations": max(1, total_paths + total_q + total_rows),
        "distinct_nontrivial": total_reached + sum(b["unsat"] + b["sat"] for b in by_obl.values()) + total_rows,
        "rule": "one evaluation = one execution path of a harness explored by CrossHair (distinct branch-decision sequence decided by z3), "
                "or one z3 query of an extracted encoding, or one row of a finite table computed from live repo objects; "
                "non-trivial = the path reached and evaluated the property's assertion / the query returned sat or unsat",
        "samples": samples[:8] or [{"note": "no sample recorded"}],
        "states": max(1, total_paths + total_q + total_rows),
        "transitions": max(1, sum(b["solver_checks"] for b in by_obl.values()) + total_q),
        "traces_validated_against_impl": replays_run,
        "exhaustive": not inconclusive,
        "obligations_detail": ob_ev,
        "inconclusive": inconclusive,
        "vacuous": vacuous,
        "spurious_counterexamples_discarded": len(spurious),
        "spurious_detail": spurious[:5],
        "known_findings_hit": sorted(old),
        "new_violations": sorted(new),
        "sample_replays_agreeing": sample_replays_ok,
        "solver_time_s": round(sum(b["solver_s"] for b in by_obl.values()), 3),
        "queries_discharged": sum(b["solver_checks"] for b in by_obl.values()) + total_q,
        "explanation": getattr(mod, "EXPLANATION", ""),
        "harness_errors": [{"obligation": e.get("obligation"), "type": e["type"], "msg": e["msg"]} for e in errors[:5]],
    }
    ev = {"property_id": prop, "tier": tier, "seed": seed, "level": level, "coverage": coverage,
          "assumptions": sorted({a for o in obls for a in o.assumptions}) + list(getattr(mod, "ASSUMPTIONS", [])),
          "wall_s": round(wall, 2), "violations": len(new)}
    os.makedirs(os.path.join(VERIF_DIR, "evidence"), exist_ok=True)
    with open(os.path.join(VERIF_DIR, "evidence", f"{prop}.json"), "w") as f:
        json.dump(ev, f, indent=1, default=str)
    print(f"[{prop} {tier}] paths={total_paths} reached={total_reached} queries={total_q} rows={total_rows} "
          f"solver_s={coverage['solver_time_s']} wall={wall:.1f}s known={len(old)} new={len(new)} spurious={len(spurious)} "
          f"inconclusive={len(inconclusive)} errors={len(errors)}")
    if new:
        return EXIT_VIOLATION
    if errors or vacuous:
        return EXIT_HARNESS
    return EXIT_OK


if __name__ == "__main__":
    sys.exit(main())
